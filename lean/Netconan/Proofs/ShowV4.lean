import Netconan.Proofs.QuadCheck
import Netconan.Proofs.Render
/-!
# The canonical dotted quad is a word of the IPv4 core language and parses back to the same number
-/
namespace Netconan
namespace NoSurvival
open Regex Secrets IpText

/-- canonical dotted quad written with the list-based decimal printer -/
def showQuad (n : Nat) : List Char :=
  decDigits (n / 16777216 % 256) ++ ['.'] ++ decDigits (n / 65536 % 256) ++ ['.'] ++
  decDigits (n / 256 % 256) ++ ['.'] ++ decDigits (n % 256)

theorem isDig_of_isDigit {c : Char} (h : Secrets.isDigit c = true) : isDig c = true := by
  simp only [Secrets.isDigit, Bool.and_eq_true, decide_eq_true_eq] at h
  have h0 : ('0' : Char).toNat = 48 := by decide
  have h9 : ('9' : Char).toNat = 57 := by decide
  have a : ('0' : Char).toNat ≤ c.toNat := h.1
  have b : c.toNat ≤ ('9' : Char).toNat := h.2
  simp [isDig]; omega

theorem part_decDigits (o : Nat) (h : o < 256) : Part (decDigits o) := by
  refine ⟨decDigitsAux_ne_nil _ _ _, ?_, by rw [digitsVal_decDigits]; omega⟩
  rw [List.all_eq_true]
  intro c hc
  exact isDig_of_isDigit (decDigitsAux_digits (o + 1) o [] (by simp) c hc)

theorem showQuad_lang (n : Nat) : Lang core4 (showQuad n) := by
  apply (lang_core4_iff _).mpr
  refine ⟨decDigits (n / 16777216 % 256), decDigits (n / 65536 % 256), decDigits (n / 256 % 256), decDigits (n % 256),
    part_decDigits _ (Nat.mod_lt _ (by decide)), part_decDigits _ (Nat.mod_lt _ (by decide)),
    part_decDigits _ (Nat.mod_lt _ (by decide)), part_decDigits _ (Nat.mod_lt _ (by decide)), ?_⟩
  simp [showQuad]

theorem showQuad_parse (n : Nat) (h : n < 2 ^ 32) : parseV4 (showQuad n) = .ok n := by
  have hq := splitOn_quad (decDigits (n / 16777216 % 256)) (decDigits (n / 65536 % 256)) (decDigits (n / 256 % 256)) (decDigits (n % 256))
    (part_decDigits _ (Nat.mod_lt _ (by decide))).2.1 (part_decDigits _ (Nat.mod_lt _ (by decide))).2.1
    (part_decDigits _ (Nat.mod_lt _ (by decide))).2.1 (part_decDigits _ (Nat.mod_lt _ (by decide))).2.1
  unfold parseV4
  have e : showQuad n = decDigits (n / 16777216 % 256) ++ '.' :: (decDigits (n / 65536 % 256) ++ '.' :: (decDigits (n / 256 % 256) ++ '.' :: decDigits (n % 256))) := by
    simp [showQuad]
  rw [e, hq]
  simp only [List.map_cons, List.map_nil,
    parseOctet_part _ (part_decDigits _ (Nat.mod_lt (n / 16777216) (by decide : 0 < 256))),
    parseOctet_part _ (part_decDigits _ (Nat.mod_lt (n / 65536) (by decide : 0 < 256))),
    parseOctet_part _ (part_decDigits _ (Nat.mod_lt (n / 256) (by decide : 0 < 256))),
    parseOctet_part _ (part_decDigits _ (Nat.mod_lt n (by decide : 0 < 256))), digitsVal_decDigits]
  congr 1
  omega

end NoSurvival
end Netconan
