import Netconan.Proofs.Ipv4Lang
import Netconan.Proofs.IpScan
/-!
# Pieces of an address pattern (definitions only: the model driver imports this file, so nothing here may depend on the
regenerated patterns having any particular shape)
-/
namespace Netconan
namespace NoSurvival
open Regex

/-- the pieces of a pattern `(?:(?<=^)|(?<=E))(core)tail` (defaults when the shape is different) -/
def encOf : Re → CharSet
  | .seq (.alt _ (.look _ _ _ (.chr e))) _ => e
  | _ => []
def coreOf : Re → Re
  | .seq _ (.seq (.grp _ c) _) => c
  | _ => .fail
def tailOf : Re → Re
  | .seq _ (.seq _ t) => t
  | _ => .fail
def tailXOf : Re → Re
  | .seq _ (.seq _ (.seq (.rep _ _ _ (.look _ _ _ x)) _)) => x
  | _ => .fail

def tail4 (enc : CharSet) (x : Re) : Re := .seq (.rep 0 (some 1) true (.look true false 0 x)) (laRe enc)

end NoSurvival
end Netconan
