import Netconan.Proofs.LangInv
import Netconan.Proofs.Pseudonym
import Netconan.Model.IpText
/-!
# The language of the IPv4 core pattern: dotted quads of decimal parts ≤ 255, leading zeros allowed
-/
namespace Netconan
namespace NoSurvival
open Regex

def octetRe (i j : Nat) : Re :=
  .grp i (.alt (.seq (.chr [(50, 50)]) (.seq (.chr [(53, 53)]) (.chr [(48, 53)])))
    (.seq (.rep 0 (some 1) true (.grp j (.alt (.seq (.chr [(50, 50)]) (.chr [(48, 52)]))
        (.seq (.rep 0 (some 1) true (.chr [(49, 49)])) (.chr [(48, 57)]))))) (.chr [(48, 57)])))

def zerosRe : Re := .rep 0 none true (.chr [(48, 48)])

/-- `((0*octet\.){3}0*octet)` without the outer group -/
def core4 : Re :=
  .seq (.rep 3 (some 3) true (.grp 2 (.seq zerosRe (.seq (octetRe 3 4) (.chr [(46, 46)])))))
    (.seq zerosRe (octetRe 5 6))

def isDig (c : Char) : Bool := decide (48 ≤ c.toNat) && decide (c.toNat ≤ 57)

/-- one part of a dotted quad as the pattern accepts it -/
def Part (p : List Char) : Prop := p ≠ [] ∧ p.all isDig = true ∧ Secrets.digitsVal p ≤ 255

theorem inR1 (a b : Nat) (c : Char) : inRanges [(a, b)] c = true ↔ a ≤ c.toNat ∧ c.toNat ≤ b := by
  simp [inRanges]

theorem char_of_toNat {c : Char} {d : Char} (h : c.toNat = d.toNat) : c = d := Char.toNat_inj.mp h

/-- the octet alternatives, read off the tree -/
def Octet (q : List Char) : Prop :=
  (∃ c, q = ['2', '5', c] ∧ 48 ≤ c.toNat ∧ c.toNat ≤ 53) ∨
  (∃ d, q = [d] ∧ isDig d = true) ∨
  (∃ c d, q = ['2', c, d] ∧ 48 ≤ c.toNat ∧ c.toNat ≤ 52 ∧ isDig d = true) ∨
  (∃ c d, q = [c, d] ∧ isDig c = true ∧ isDig d = true) ∨
  (∃ c d, q = ['1', c, d] ∧ isDig c = true ∧ isDig d = true)

theorem lang_octet_iff (i j : Nat) (q : List Char) : Lang (octetRe i j) q ↔ Octet q := by
  unfold octetRe Octet
  simp only [lang_grp_iff, lang_alt_iff, lang_seq_iff, lang_chr_iff, lang_opt_iff, inR1, isDig,
    Bool.and_eq_true, decide_eq_true_eq]
  constructor
  · rintro (⟨w1, w2, rfl, ⟨c1, rfl, h1⟩, w3, w4, rfl, ⟨c2, rfl, h2⟩, c3, rfl, h3⟩ | ⟨w1, w2, rfl, hopt, d, rfl, hd⟩)
    · left
      have e1 : c1 = '2' := char_of_toNat (by have : ('2' : Char).toNat = 50 := by decide
                                              omega)
      have e2 : c2 = '5' := char_of_toNat (by have : ('5' : Char).toNat = 53 := by decide
                                              omega)
      subst e1 e2
      exact ⟨c3, rfl, h3⟩
    · rcases hopt with rfl | ⟨hl, _⟩
      · right; left; exact ⟨d, rfl, hd⟩
      · rcases hl with ⟨u1, u2, rfl, ⟨c1, rfl, h1⟩, c2, rfl, h2⟩ | ⟨u1, u2, rfl, hopt2, c2, rfl, h2⟩
        · right; right; left
          have e1 : c1 = '2' := char_of_toNat (by have : ('2' : Char).toNat = 50 := by decide
                                                  omega)
          subst e1
          exact ⟨c2, d, rfl, h2.1, h2.2, hd⟩
        · rcases hopt2 with rfl | ⟨⟨c1, rfl, h1⟩, _⟩
          · right; right; right; left; exact ⟨c2, d, rfl, h2, hd⟩
          · right; right; right; right
            have e1 : c1 = '1' := char_of_toNat (by have : ('1' : Char).toNat = 49 := by decide
                                                    omega)
            subst e1
            exact ⟨c2, d, rfl, h2, hd⟩
  · rintro (⟨c, rfl, h⟩ | ⟨d, rfl, hd⟩ | ⟨c, d, rfl, h1, h2, hd⟩ | ⟨c, d, rfl, hc, hd⟩ | ⟨c, d, rfl, hc, hd⟩)
    · left
      exact ⟨['2'], ['5', c], rfl, ⟨'2', rfl, by decide⟩, ['5'], [c], rfl, ⟨'5', rfl, by decide⟩, c, rfl, h⟩
    · right
      exact ⟨[], [d], rfl, Or.inl rfl, d, rfl, hd⟩
    · right
      refine ⟨['2', c], [d], rfl, Or.inr ⟨Or.inl ⟨['2'], [c], rfl, ⟨'2', rfl, by decide⟩, c, rfl, h1, h2⟩, by simp⟩, d, rfl, hd⟩
    · right
      refine ⟨[c], [d], rfl, Or.inr ⟨Or.inr ⟨[], [c], rfl, Or.inl rfl, c, rfl, hc⟩, by simp⟩, d, rfl, hd⟩
    · right
      refine ⟨['1', c], [d], rfl, Or.inr ⟨Or.inr ⟨['1'], [c], rfl, Or.inr ⟨⟨'1', rfl, by decide⟩, by simp⟩, c, rfl, hc⟩, by simp⟩, d, rfl, hd⟩

end NoSurvival
end Netconan

namespace Netconan
namespace NoSurvival
open Regex Secrets

theorem dv_zeros (zs q : List Char) (hz : zs.all (inRanges [(48, 48)]) = true) : digitsVal (zs ++ q) = digitsVal q := by
  induction zs with
  | nil => rfl
  | cons z zs ih =>
    simp only [List.all_cons, Bool.and_eq_true, inR1] at hz
    have hz0 : z.toNat - 48 = 0 := by omega
    rw [List.cons_append, digitsVal_cons, hz0, ih hz.2]; simp

theorem isDig_of_zero {c : Char} (h : inRanges [(48, 48)] c = true) : isDig c = true := by
  rw [inR1] at h; simp [isDig]; omega

theorem octet_part (q : List Char) (h : Octet q) : q ≠ [] ∧ q.all isDig = true ∧ digitsVal q ≤ 255 := by
  have d2 : ('2' : Char).toNat = 50 := by decide
  have d5 : ('5' : Char).toNat = 53 := by decide
  have d1 : ('1' : Char).toNat = 49 := by decide
  rcases h with ⟨c, rfl, h1, h2⟩ | ⟨d, rfl, hd⟩ | ⟨c, d, rfl, h1, h2, hd⟩ | ⟨c, d, rfl, hc, hd⟩ | ⟨c, d, rfl, hc, hd⟩
  · refine ⟨by simp, ?_, ?_⟩
    · simp [isDig, d2, d5]; omega
    · simp [digitsVal_cons, digitsVal, d2, d5]; omega
  · simp only [isDig, Bool.and_eq_true, decide_eq_true_eq] at hd
    refine ⟨by simp, ?_, ?_⟩
    · simp [isDig]; omega
    · simp [digitsVal_cons, digitsVal]; omega
  · simp only [isDig, Bool.and_eq_true, decide_eq_true_eq] at hd
    refine ⟨by simp, ?_, ?_⟩
    · simp [isDig, d2]; omega
    · simp [digitsVal_cons, digitsVal, d2]; omega
  · simp only [isDig, Bool.and_eq_true, decide_eq_true_eq] at hc hd
    refine ⟨by simp, ?_, ?_⟩
    · simp [isDig]; omega
    · simp [digitsVal_cons, digitsVal]; omega
  · simp only [isDig, Bool.and_eq_true, decide_eq_true_eq] at hc hd
    refine ⟨by simp, ?_, ?_⟩
    · simp [isDig, d1]; omega
    · simp [digitsVal_cons, digitsVal, d1]; omega

theorem mem_takeWhile_p' {α} (p : α → Bool) : ∀ (l : List α) (c : α), c ∈ l.takeWhile p → p c = true := by
  intro l
  induction l with
  | nil => intro c h; simp at h
  | cons a l ih =>
    intro c h
    simp only [List.takeWhile_cons] at h
    split at h
    · simp only [List.mem_cons] at h
      rcases h with rfl | h
      · assumption
      · exact ih c h
    · simp at h

theorem part_of_lang (i j : Nat) (p : List Char) (h : Lang (.seq zerosRe (octetRe i j)) p) : Part p := by
  obtain ⟨zs, q, rfl, hz, hq⟩ := (lang_seq_iff _ _ _).mp h
  have hz' := (lang_star_chr _ _ _).mp hz
  obtain ⟨hne, hd, hv⟩ := octet_part q ((lang_octet_iff i j q).mp hq)
  refine ⟨by simp [hne], ?_, by rw [dv_zeros zs q hz']; exact hv⟩
  rw [List.all_append, hd, Bool.and_true]
  rw [List.all_eq_true]
  intro c hc
  exact isDig_of_zero (List.all_eq_true.mp hz' c hc)

/-- a digit string without leading zero and value ≤ 255 is an octet of the pattern -/
theorem octet_of_canonical (q : List Char) (hd : q.all isDig = true) (hne : q ≠ [])
    (h0 : ∀ c, q.head? = some c → c.toNat ≠ 48) (hv : digitsVal q ≤ 255) : Octet q := by
  have e2 : ∀ c : Char, c.toNat = 50 → c = '2' := fun c h => char_of_toNat (by rw [h]; decide)
  have e5 : ∀ c : Char, c.toNat = 53 → c = '5' := fun c h => char_of_toNat (by rw [h]; decide)
  have e1 : ∀ c : Char, c.toNat = 49 → c = '1' := fun c h => char_of_toNat (by rw [h]; decide)
  match q, hd, hne, h0, hv with
  | [a], hd, _, _, _ =>
    right; left; exact ⟨a, rfl, by simpa using hd⟩
  | [a, b], hd, _, _, _ =>
    simp only [List.all_cons, List.all_nil, Bool.and_true, Bool.and_eq_true] at hd
    right; right; right; left; exact ⟨a, b, rfl, hd.1, hd.2⟩
  | [a, b, c], hd, _, h0, hv =>
    simp only [List.all_cons, List.all_nil, Bool.and_true, Bool.and_eq_true] at hd
    obtain ⟨ha, hb, hc⟩ := hd
    have ha0 := h0 a rfl
    simp only [isDig, Bool.and_eq_true, decide_eq_true_eq] at ha hb hc
    simp [digitsVal_cons, digitsVal] at hv
    by_cases h1 : a.toNat = 49
    · right; right; right; right
      rw [e1 a h1]
      exact ⟨b, c, rfl, by simp [isDig]; omega, by simp [isDig]; omega⟩
    · have h2 : a.toNat = 50 := by omega
      rw [e2 a h2]
      by_cases hb5 : b.toNat = 53
      · left; rw [e5 b hb5]; exact ⟨c, rfl, by omega, by omega⟩
      · right; right; left
        exact ⟨b, c, rfl, by omega, by omega, by simp [isDig]; omega⟩
  | a :: b :: c :: d :: rest, hd, _, h0, hv =>
    exfalso
    simp only [List.all_cons, Bool.and_eq_true] at hd
    have ha := hd.1
    have ha0 := h0 a rfl
    simp only [isDig, Bool.and_eq_true, decide_eq_true_eq] at ha
    rw [digitsVal_cons] at hv
    have hp : 1000 ≤ 10 ^ (b :: c :: d :: rest).length := by
      have : (b :: c :: d :: rest).length = rest.length + 3 := by simp
      rw [this, Nat.pow_add]
      have : 1 ≤ 10 ^ rest.length := Nat.pow_pos (by decide)
      omega
    have h1 : 1 ≤ a.toNat - 48 := by omega
    have : 1000 ≤ (a.toNat - 48) * 10 ^ (b :: c :: d :: rest).length :=
      Nat.le_trans hp (Nat.le_mul_of_pos_left _ h1)
    omega

theorem lang_of_part (i j : Nat) (p : List Char) (h : Part p) : Lang (.seq zerosRe (octetRe i j)) p := by
  obtain ⟨hne, hd, hv⟩ := h
  -- split off the leading zeros
  have hsplit := List.takeWhile_append_dropWhile (p := fun c => c.toNat == 48) (l := p)
  have hzs : (p.takeWhile fun c => c.toNat == 48).all (inRanges [(48, 48)]) = true := by
    rw [List.all_eq_true]
    intro c hc
    have := mem_takeWhile_p' _ p c hc
    rw [inR1]
    have : c.toNat = 48 := by simpa using this
    omega
  by_cases hq : p.dropWhile (fun c => c.toNat == 48) = []
  · -- all zeros: the last zero is the octet
    rw [hq, List.append_nil] at hsplit
    have hall : p.all (inRanges [(48, 48)]) = true := by rw [← hsplit]; exact hzs
    have hp : p = p.dropLast ++ [p.getLast hne] := (List.dropLast_concat_getLast hne).symm
    have hlast : inRanges [(48, 48)] (p.getLast hne) = true := List.all_eq_true.mp hall _ (List.getLast_mem hne)
    rw [hp]
    apply Lang.seq
    · apply (lang_star_chr _ _ _).mpr
      rw [List.all_eq_true]
      intro c hc
      exact List.all_eq_true.mp hall c (List.dropLast_subset p hc)
    · apply (lang_octet_iff i j _).mpr
      right; left
      exact ⟨_, rfl, isDig_of_zero hlast⟩
  · rw [← hsplit]
    apply Lang.seq ((lang_star_chr _ _ _).mpr hzs)
    apply (lang_octet_iff i j _).mpr
    apply octet_of_canonical _ ?_ hq ?_ ?_
    · rw [List.all_eq_true]
      intro c hc
      exact List.all_eq_true.mp hd c ((List.dropWhile_sublist _).subset hc)
    · intro c hc
      have := List.head?_dropWhile_not (fun c => c.toNat == 48) p
      rw [hc] at this
      simpa using this
    · have := dv_zeros _ (p.dropWhile fun c => c.toNat == 48) hzs
      rw [hsplit] at this
      rw [← this]; exact hv

/-- **one part of a dotted quad**: digits, at least one, value ≤ 255 – any number of leading zeros -/
theorem lang_part_iff (i j : Nat) (p : List Char) : Lang (.seq zerosRe (octetRe i j)) p ↔ Part p :=
  ⟨part_of_lang i j p, lang_of_part i j p⟩

end NoSurvival
end Netconan

namespace Netconan
namespace NoSurvival
open Regex Secrets

theorem lang_dotted_part (p x : List Char) :
    Lang (.grp 2 (.seq zerosRe (.seq (octetRe 3 4) (.chr [(46, 46)])))) x ↔ ∃ p, Part p ∧ x = p ++ ['.'] := by
  rw [lang_grp_iff, lang_seq_iff]
  constructor
  · rintro ⟨zs, y, rfl, hz, hy⟩
    obtain ⟨q, d, rfl, hq, hd⟩ := (lang_seq_iff _ _ _).mp hy
    obtain ⟨c, rfl, hc⟩ := (lang_chr_iff _ _).mp hd
    have hc' : c = '.' := char_of_toNat (by rw [inR1] at hc; have : ('.' : Char).toNat = 46 := by decide
                                            omega)
    subst hc'
    exact ⟨zs ++ q, part_of_lang 3 4 _ (.seq hz hq), by simp⟩
  · rintro ⟨p, hp, rfl⟩
    obtain ⟨zs, q, rfl, hz, hq⟩ := (lang_seq_iff _ _ _).mp (lang_of_part 3 4 p hp)
    exact ⟨zs, q ++ ['.'], by simp, hz, .seq hq (.chr (by decide))⟩

/-- **The language of the IPv4 core pattern**: four parts separated by dots; a part is a non-empty
string of decimal digits with value ≤ 255 (leading zeros allowed, any number of them). -/
theorem lang_core4_iff (w : List Char) :
    Lang core4 w ↔ ∃ p1 p2 p3 p4, Part p1 ∧ Part p2 ∧ Part p3 ∧ Part p4 ∧
      w = p1 ++ '.' :: (p2 ++ '.' :: (p3 ++ '.' :: p4)) := by
  unfold core4
  rw [lang_seq_iff]
  constructor
  · rintro ⟨x, p4, rfl, hx, h4⟩
    obtain ⟨x1, r1, rfl, h1, hr1⟩ := (lang_rep_exact_succ 2 _ _ _).mp hx
    obtain ⟨x2, r2, rfl, h2, hr2⟩ := (lang_rep_exact_succ 1 _ _ _).mp hr1
    obtain ⟨x3, r3, rfl, h3, hr3⟩ := (lang_rep_exact_succ 0 _ _ _).mp hr2
    have : r3 = [] := (lang_rep_zero_max _ _ _).mp hr3
    subst this
    obtain ⟨p1, hp1, rfl⟩ := (lang_dotted_part [] x1).mp h1
    obtain ⟨p2, hp2, rfl⟩ := (lang_dotted_part [] x2).mp h2
    obtain ⟨p3, hp3, rfl⟩ := (lang_dotted_part [] x3).mp h3
    exact ⟨p1, p2, p3, p4, hp1, hp2, hp3, part_of_lang 5 6 p4 h4, by simp⟩
  · rintro ⟨p1, p2, p3, p4, hp1, hp2, hp3, hp4, rfl⟩
    refine ⟨(p1 ++ ['.']) ++ ((p2 ++ ['.']) ++ ((p3 ++ ['.']) ++ [])), p4, by simp, ?_, lang_of_part 5 6 p4 hp4⟩
    apply (lang_rep_exact_succ 2 _ _ _).mpr
    refine ⟨_, _, rfl, (lang_dotted_part [] _).mpr ⟨p1, hp1, rfl⟩, ?_⟩
    apply (lang_rep_exact_succ 1 _ _ _).mpr
    refine ⟨_, _, rfl, (lang_dotted_part [] _).mpr ⟨p2, hp2, rfl⟩, ?_⟩
    apply (lang_rep_exact_succ 0 _ _ _).mpr
    exact ⟨_, _, rfl, (lang_dotted_part [] _).mpr ⟨p3, hp3, rfl⟩, (lang_rep_zero_max _ _ _).mpr rfl⟩

/-- a word of the core consists of digits and dots -/
theorem core4_chars (w : List Char) (h : Lang core4 w) : ∀ c ∈ w, isDig c = true ∨ c = '.' := by
  obtain ⟨p1, p2, p3, p4, h1, h2, h3, h4, rfl⟩ := (lang_core4_iff w).mp h
  intro c hc
  simp only [List.mem_append, List.mem_cons] at hc
  rcases hc with hc | rfl | hc | rfl | hc | rfl | hc
  · exact Or.inl (List.all_eq_true.mp h1.2.1 c hc)
  · exact Or.inr rfl
  · exact Or.inl (List.all_eq_true.mp h2.2.1 c hc)
  · exact Or.inr rfl
  · exact Or.inl (List.all_eq_true.mp h3.2.1 c hc)
  · exact Or.inr rfl
  · exact Or.inl (List.all_eq_true.mp h4.2.1 c hc)

end NoSurvival
end Netconan
