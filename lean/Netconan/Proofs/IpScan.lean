import Netconan.Proofs.IpPattern
import Netconan.Model.IpText
/-!
# The IP stage is a left-to-right scan for standalone words of the core language
-/
namespace Netconan
namespace NoSurvival
open Regex

/-- generic scanner relation: `Starts left right` – something to replace starts here;
`Ends left w rest` – the span `w` (followed by `rest`) is what gets replaced -/
def ScanG (Starts : List Char → List Char → Prop) (Ends : List Char → List Char → List Char → Prop)
    (F : List Char → List Char) : List Char → List Seg → Prop
  | _, [] => True
  | left, .keep c :: segs => ¬ Starts left (c :: srcs segs) ∧ ScanG Starts Ends F (c :: left) segs
  | left, .rep t rp :: segs => (t ≠ [] ∧ Ends left t (srcs segs) ∧ rp = F t) ∧ ScanG Starts Ends F (t.reverse ++ left) segs

theorem subLoop_scanG (r : Re) (fuel : Nat) (f : Match → List Char) (F : List Char → List Char) (hf : ∀ mt, f mt = F mt.text)
    (Starts : List Char → List Char → Prop) (Ends : List Char → List Char → List Char → Prop)
    (hnone : ∀ z, matchAt r fuel z = .none → ¬ Starts z.left z.right)
    (hok : ∀ z z' cs, matchAt r fuel z = .ok (z', cs) →
      ∃ w, w ≠ [] ∧ z.right = w ++ z'.right ∧ z'.left = w.reverse ++ z.left ∧ Ends z.left w z'.right) (n : Nat) :
    ∀ (z : Z) (acc out : List Char), subLoop r fuel f n z acc = .ok out →
      ∃ segs : List Seg, z.right = srcs segs ∧ out = acc ++ dsts segs ∧ ScanG Starts Ends F z.left segs := by
  induction n with
  | zero => intro z acc out h; simp [subLoop] at h
  | succ n ih =>
    intro z acc out h
    simp only [subLoop] at h
    cases hm : matchAt r fuel z with
    | oof => simp [hm] at h
    | ok p =>
      obtain ⟨z', cs⟩ := p
      simp only [hm] at h
      obtain ⟨w, hwne, hr, hl, he⟩ := hok z z' cs hm
      have hspan : (z'.left.take (z'.left.length - z.left.length)).reverse = w := by
        rw [hl]; simp
      have hnonempty : ((z'.left.take (z'.left.length - z.left.length)).reverse).isEmpty = false := by
        rw [hspan]; cases w with
        | nil => exact absurd rfl hwne
        | cons _ _ => rfl
      simp only [hnonempty] at h
      obtain ⟨segs, h1, h2, h3⟩ := ih _ _ _ h
      refine ⟨.rep w (f ⟨z.left.length, w, cs⟩) :: segs, ?_, ?_, ?_⟩
      · simp only [srcs, Seg.src, ← h1]; exact hr
      · rw [h2, hspan]; simp [dsts, Seg.dst]
      · refine ⟨⟨hwne, ?_, by rw [hf]⟩, ?_⟩
        · rw [← h1]; exact he
        · rw [← hl]; exact h3
    | none =>
      simp only [hm] at h
      have hns := hnone z hm
      cases hr : z.right with
      | nil =>
        simp only [hr] at h
        simp at h
        exact ⟨[], by simp [srcs], by simp [dsts, h], trivial⟩
      | cons c rest =>
        simp only [hr] at h
        obtain ⟨segs, h1, h2, h3⟩ := ih _ _ _ h
        refine ⟨.keep c :: segs, by simp [srcs, Seg.src, ← h1], by rw [h2]; simp [dsts, Seg.dst], ?_, h3⟩
        rw [hr] at hns
        simpa [← h1] using hns

/-- a lower bound on the length of the words of a pattern -/
def minLen : Re → Nat
  | .chr _ => 1
  | .seq a b => minLen a + minLen b
  | .alt a b => min (minLen a) (minLen b)
  | .grp _ r => minLen r
  | .rep mn _ _ r => mn * minLen r
  | _ => 0

theorem lang_minLen {r : Re} {w : List Char} (h : Lang r w) : minLen r ≤ w.length := by
  induction h with
  | chr _ => simp [minLen]
  | eps => simp [minLen]
  | seq _ _ iha ihb => simp only [minLen, List.length_append]; omega
  | altL _ ih => simp only [minLen]; omega
  | altR _ ih => simp only [minLen]; omega
  | grp _ ih => simpa [minLen] using ih
  | repStop => simp [minLen]
  | @repMore mn mx g r w1 w2 _ _ _ _ ih1 ih2 =>
    simp only [minLen, List.length_append] at ih2 ⊢
    cases mn with
    | zero => simp
    | succ k =>
      simp only [Nat.add_sub_cancel] at ih2
      rw [Nat.add_mul]; omega

/-- **The IP stage as a scanner**, for every pattern of the shape `(?:(?<=^)|(?<=E))(core)tail`:
reading left to right, a span is replaced only if it is a word of the core language that stands alone
(previous character in `E` or none, next character in `E` / end / final newline), by `anonMatch` of
it; a character is kept only if no such word stands alone at its position. -/
theorem ip_scan (c : IpText.IpCfg) (undo : Bool) (enc : CharSet) (core tail : Re)
    (hpat : c.pattern = ipRe enc core tail) (hpl : Plain core = true) (hmin : 0 < minLen core) (ht : TailOK enc tail)
    (line out : List Char) (h : IpText.anonIpLine c undo line = .ok out) :
    ∃ segs : List Seg, line = srcs segs ∧ out = dsts segs ∧
      ScanG (Stands enc core) (fun left w rest => prevOK enc left = true ∧ Lang core w ∧ nextOK enc rest = true)
        (IpText.anonMatch c undo) [] segs := by
  unfold IpText.anonIpLine sub at h
  rw [hpat] at h
  obtain ⟨segs, h1, h2, h3⟩ := subLoop_scanG (ipRe enc core tail) _ _ (IpText.anonMatch c undo) (fun _ => rfl)
    (Stands enc core) (fun left w rest => prevOK enc left = true ∧ Lang core w ∧ nextOK enc rest = true)
    (fun z hz => ipMatch_none enc core tail ht _ z hz)
    (fun z z' cs hz => by
      obtain ⟨hp, w, hl, hr, hleft, hn⟩ := ipMatch_ok enc core tail hpl ht _ z z' cs hz
      refine ⟨w, ?_, hr, hleft, hp, hl, hn⟩
      intro hw
      have := lang_minLen hl
      rw [hw] at this
      simp at this
      omega)
    _ ⟨[], line⟩ [] out h
  exact ⟨segs, h1, by simpa using h2, h3⟩

end NoSurvival
end Netconan
