import Netconan.Proofs.AsScan
import Netconan.Proofs.Secrets
/-!
# `AsNum.anonymize` replaces exactly the listed numbers that stand alone, by their table values
-/
namespace Netconan
namespace NoSurvival
open Regex AsNum

def single (c : Char) : CharSet := [(c.toNat, c.toNat)]
def singles (n : List Char) : List CharSet := n.map single

theorem litRe_eq (w : List Char) : AsNum.litRe w = litSets (singles w) := by
  unfold AsNum.litRe litSets singles
  induction w with
  | nil => rfl
  | cons c w ih => simp only [List.foldr_cons, List.map_cons, ih, single]

theorem pattern_eq (nd : CharSet) (nums : List (List Char)) : AsNum.pattern nd nums = asRe nd (nums.map singles) := by
  unfold AsNum.pattern asRe lbRe laRe
  simp only [List.map_map]
  congr 4
  apply List.map_congr_left
  intro w _
  exact litRe_eq w

theorem inRanges_single (c d : Char) : inRanges (single c) d = true ↔ d = c := by
  unfold inRanges single
  simp only [List.any_cons, List.any_nil, Bool.or_false, Bool.and_eq_true, decide_eq_true_eq]
  constructor
  · intro h; exact Char.toNat_inj.mp (by omega)
  · intro h; subst h; omega

theorem pre_singles : ∀ (n s : List Char), pre (singles n) s = true ↔ ∃ rest, s = n ++ rest := by
  intro n
  induction n with
  | nil => intro s; simp [singles, pre]
  | cons c n ih =>
    intro s
    cases s with
    | nil => simp [singles, pre]
    | cons d s =>
      simp only [singles, List.map_cons, pre, Bool.and_eq_true, inRanges_single]
      have := ih s
      simp only [singles] at this
      rw [this]
      constructor
      · rintro ⟨rfl, rest, rfl⟩; exact ⟨rest, rfl⟩
      · rintro ⟨rest, h⟩
        simp only [List.cons_append, List.cons.injEq] at h
        exact ⟨h.1, rest, h.2⟩

/-- a listed number stands alone here: no digit before it, no digit after it -/
def StandsAlone (nd : CharSet) (nums : List (List Char)) (left right : List Char) : Prop :=
  prevOK nd left = true ∧ ∃ n ∈ nums, ∃ rest, right = n ++ rest ∧ nextOK nd rest = true

theorem startsHere_iff (nd : CharSet) (nums : List (List Char)) (left right : List Char) :
    StartsHere nd (nums.map singles) left right ↔ StandsAlone nd nums left right := by
  unfold StartsHere StandsAlone
  constructor
  · rintro ⟨hp, w, hw, hpre, hn⟩
    simp only [List.mem_map] at hw
    obtain ⟨n, hn', rfl⟩ := hw
    obtain ⟨rest, hr⟩ := (pre_singles n right).mp hpre
    refine ⟨hp, n, hn', rest, hr, ?_⟩
    rw [hr] at hn
    simpa [singles] using hn
  · rintro ⟨hp, n, hn', rest, hr, hn⟩
    refine ⟨hp, singles n, List.mem_map_of_mem hn', (pre_singles n right).mpr ⟨rest, hr⟩, ?_⟩
    rw [hr]; simpa [singles] using hn

/-- the scanner, in terms of the listed numbers and their replacement table -/
def ScanN (nd : CharSet) (nums : List (List Char)) (R : List Char → List Char → Prop) : List Char → List Seg → Prop
  | _, [] => True
  | left, .keep c :: segs => ¬ StandsAlone nd nums left (c :: srcs segs) ∧ ScanN nd nums R (c :: left) segs
  | left, .rep t rp :: segs =>
    (t ∈ nums ∧ prevOK nd left = true ∧ nextOK nd (srcs segs) = true ∧ R t rp) ∧ ScanN nd nums R (t.reverse ++ left) segs

theorem scan_to_scanN (nd : CharSet) (nums : List (List Char)) (F : List Char → List Char) (R : List Char → List Char → Prop)
    (hR : ∀ n ∈ nums, R n (F n)) :
    ∀ (segs : List Seg) (left : List Char), Scan nd (nums.map singles) F left segs → ScanN nd nums R left segs := by
  intro segs
  induction segs with
  | nil => intro _ _; trivial
  | cons s segs ih =>
    intro left h
    cases s with
    | keep c =>
      exact ⟨fun hs => h.1 ((startsHere_iff nd nums left _).mpr hs), ih _ h.2⟩
    | rep t rp =>
      obtain ⟨⟨_, hp, ⟨w, hw, hpre, hlen⟩, hn, hrp⟩, hrest⟩ := h
      simp only [List.mem_map] at hw
      obtain ⟨n, hn', rfl⟩ := hw
      obtain ⟨rest, hr⟩ := (pre_singles n _).mp hpre
      have htn : t = n := by
        have h1 : (t ++ srcs segs).take t.length = t := List.take_left' rfl
        have h2 : (n ++ rest).take n.length = n := List.take_left' rfl
        have hl : t.length = n.length := by simpa [singles] using hlen
        rw [← h1, hr, hl, h2]
      subst htn
      exact ⟨⟨hn', hp, hn, by rw [hrp]; exact hR _ hn'⟩, ih _ hrest⟩

/-! ### the replacement table built by the constructor -/

theorem find_map_other (l : Secrets.Lookup) (k k' v : List Char) (hk : k' ≠ k) :
    (l.map (fun e => if e.1 == k then (k, v) else e)).find? (·.1 == k') = l.find? (·.1 == k') := by
  have h2 : (k == k') = false := by simpa using (Ne.symm hk)
  induction l with
  | nil => rfl
  | cons e es ih =>
    simp only [List.map_cons, List.find?_cons]
    by_cases hek : e.1 = k
    · have h1 : (e.1 == k) = true := by simpa using hek
      have h3 : (e.1 == k') = false := by rw [hek]; exact h2
      simp only [h1, if_true, h2, h3]
      exact ih
    · have h1 : (e.1 == k) = false := by simpa using hek
      simp only [h1, Bool.false_eq_true, if_false]
      cases h4 : (e.1 == k') with
      | true => rfl
      | false => exact ih

theorem Lookup.get_set_other (l : Secrets.Lookup) (k k' v : List Char) (hk : k' ≠ k) : (l.set k v).get k' = l.get k' := by
  unfold Secrets.Lookup.set Secrets.Lookup.get
  split
  · rw [find_map_other l k k' v hk]
  · congr 1
    rw [List.find?_append]
    have h2 : (k == k') = false := by simpa using (Ne.symm hk)
    simp [h2]

/-- every entry of the table is the replacement of its key -/
def Consistent (salt : List Char) (mp : Secrets.Lookup) : Prop :=
  ∀ n r, mp.get n = some r → replacement salt n = .ok r

theorem build_spec (salt : List Char) : ∀ (ns : List (List Char)) (acc mp : Secrets.Lookup),
    Consistent salt acc → AsNum.mk.build salt ns acc = .ok mp →
    Consistent salt mp ∧ (∀ n ∈ ns, (mp.get n).isSome = true) ∧ (∀ n, (acc.get n).isSome = true → (mp.get n).isSome = true) := by
  intro ns
  induction ns with
  | nil =>
    intro acc mp hc h
    simp only [AsNum.mk.build] at h
    have : acc = mp := by simpa using h
    subst this
    exact ⟨hc, by simp, fun _ h => h⟩
  | cons n ns ih =>
    intro acc mp hc h
    simp only [AsNum.mk.build] at h
    cases hr : replacement salt n with
    | error e => simp [hr] at h
    | ok r =>
      simp only [hr] at h
      have hc' : Consistent salt (acc.set n r) := by
        intro x y hx
        by_cases hxn : x = n
        · subst hxn
          rw [Secrets.Lookup.get_set_self] at hx
          simp at hx; subst hx; exact hr
        · rw [Lookup.get_set_other acc n x r hxn] at hx
          exact hc x y hx
      obtain ⟨h1, h2, h3⟩ := ih (acc.set n r) mp hc' h
      refine ⟨h1, ?_, ?_⟩
      · intro x hx
        simp only [List.mem_cons] at hx
        rcases hx with rfl | hx
        · exact h3 x (by rw [Secrets.Lookup.get_set_self]; rfl)
        · exact h2 x hx
      · intro x hx
        apply h3
        by_cases hxn : x = n
        · subst hxn; rw [Secrets.Lookup.get_set_self]; rfl
        · rw [Lookup.get_set_other acc n x r hxn]; exact hx

theorem mk_spec (nd : CharSet) (nums : List (List Char)) (salt : List Char) (t : AsNum.T) (h : AsNum.mk nd nums salt = .ok t) :
    t.re = AsNum.pattern nd nums ∧ ∀ n ∈ nums, ∃ r, replacement salt n = .ok r ∧ Secrets.Lookup.get t.map n = some r := by
  unfold AsNum.mk at h
  cases hb : AsNum.mk.build salt nums [] with
  | error e => simp [hb] at h
  | ok mp =>
    simp only [hb] at h
    have ht : t = { re := AsNum.pattern nd nums, map := mp } := by simpa using h.symm
    subst ht
    obtain ⟨h1, h2, _⟩ := build_spec salt nums [] mp (by intro n r hn; simp [Secrets.Lookup.get] at hn) hb
    refine ⟨rfl, ?_⟩
    intro n hn
    have := h2 n hn
    cases hg : Secrets.Lookup.get mp n with
    | none => rw [hg] at this; simp at this
    | some r => exact ⟨r, h1 n r hg, rfl⟩

/-- **`anonymize_as_numbers` is the digit-run scanner**: the line is cut into kept characters and
replaced spans; a span is replaced exactly where a listed number stands alone, by that number's
replacement; a character is kept exactly where no listed number stands alone. -/
theorem anonymize_scan (nd : CharSet) (nums : List (List Char)) (salt : List Char) (t : AsNum.T)
    (hmk : AsNum.mk nd nums salt = .ok t) (hW : nums ≠ []) (hne : ∀ n ∈ nums, n ≠ [])
    (line out : List Char) (h : AsNum.anonymize t line = .ok out) :
    ∃ segs : List Seg, line = srcs segs ∧ out = dsts segs ∧
      ScanN nd nums (fun n rp => replacement salt n = .ok rp) [] segs := by
  obtain ⟨hre, htab⟩ := mk_spec nd nums salt t hmk
  unfold AsNum.anonymize at h
  rw [hre, pattern_eq] at h
  let F : List Char → List Char := fun txt => match t.map.find? (·.1 == txt) with
    | some e => e.2
    | none => txt
  obtain ⟨segs, h1, h2, h3⟩ := subLoop_scan nd (nums.map singles) (by simpa using hW)
    (by intro w hw; simp only [List.mem_map] at hw; obtain ⟨n, hn, rfl⟩ := hw; have := hne n hn; simpa [singles] using this)
    _ _ F (fun mt => rfl) _ ⟨[], line⟩ [] out h
  refine ⟨segs, h1, by simpa using h2, ?_⟩
  apply scan_to_scanN nd nums F _ ?_ segs [] h3
  intro n hn
  obtain ⟨r, hr, hg⟩ := htab n hn
  show replacement salt n = .ok (F n)
  simp only [F]
  unfold Secrets.Lookup.get at hg
  cases hf : t.map.find? (·.1 == n) with
  | none => rw [hf] at hg; simp at hg
  | some e =>
    rw [hf] at hg
    simp at hg
    simp only [hg, hr]

end NoSurvival
end Netconan
