import Netconan.Model.Words
/-!
# The alternation of sensitive words does not depend on the order (or repetition) of the list

`Words.mk` lower-cases, removes duplicates and insertion-sorts the words by (length descending, then
code points).  The result is determined by the *set* of lower-cased words: two strictly sorted lists
with the same elements are equal.  (The Python code built the alternation from a `set`; its iteration
order – the interpreter's hash seed – therefore cannot influence the pattern.)
-/
namespace Netconan
namespace Words

/-! ### `strLt` is a strict total order -/

theorem strLt_irrefl (a : List Char) : strLt a a = false := by
  induction a with
  | nil => rfl
  | cons x xs ih => simp [strLt, ih]

theorem strLt_trans : ∀ (a b c : List Char), strLt a b = true → strLt b c = true → strLt a c = true
  | [], [], _, h, _ => by simp [strLt] at h
  | [], _ :: _, [], _, h => by simp [strLt] at h
  | [], _ :: _, _ :: _, _, _ => by simp [strLt]
  | _ :: _, [], _, h, _ => by simp [strLt] at h
  | _ :: _, _ :: _, [], _, h => by simp [strLt] at h
  | x :: xs, y :: ys, z :: zs, h1, h2 => by
    simp only [strLt] at h1 h2 ⊢
    by_cases hxy : x.toNat < y.toNat
    · by_cases hyz : y.toNat < z.toNat
      · have : x.toNat < z.toNat := by omega
        simp [this]
      · simp only [hyz, if_false] at h2
        by_cases hzy : y.toNat > z.toNat
        · simp [hzy] at h2
        · have : x.toNat < z.toNat := by omega
          simp [this]
    · simp only [hxy, if_false] at h1
      by_cases hyx : x.toNat > y.toNat
      · simp [hyx] at h1
      · simp only [hyx, if_false] at h1
        have hxy' : x.toNat = y.toNat := by omega
        by_cases hyz : y.toNat < z.toNat
        · have : x.toNat < z.toNat := by omega
          simp [this]
        · simp only [hyz, if_false] at h2
          by_cases hzy : y.toNat > z.toNat
          · simp [hzy] at h2
          · simp only [hzy, if_false] at h2
            have h3 : ¬ x.toNat < z.toNat := by omega
            have h4 : ¬ x.toNat > z.toNat := by omega
            simp only [h3, h4, if_false]
            exact strLt_trans xs ys zs h1 h2

theorem strLt_total : ∀ (a b : List Char), a ≠ b → strLt a b = true ∨ strLt b a = true
  | [], [], h => absurd rfl h
  | [], _ :: _, _ => Or.inl (by simp [strLt])
  | _ :: _, [], _ => Or.inr (by simp [strLt])
  | x :: xs, y :: ys, h => by
    simp only [strLt]
    by_cases hxy : x.toNat < y.toNat
    · left; simp [hxy]
    · by_cases hyx : y.toNat < x.toNat
      · right; simp [hyx]
      · have hxy' : x.toNat = y.toNat := by omega
        have hc : x = y := Char.toNat_inj.mp hxy'
        subst hc
        have hne : xs ≠ ys := fun e => h (by rw [e])
        have h1 : ¬ x.toNat > x.toNat := by omega
        simp only [hxy, h1, if_false]
        exact strLt_total xs ys hne

/-! ### `keyLt` (length descending, then `strLt`) is a strict total order -/

theorem keyLt_irrefl (a : List Char) : keyLt a a = false := by simp [keyLt, strLt_irrefl]

theorem keyLt_trans (a b c : List Char) (h1 : keyLt a b = true) (h2 : keyLt b c = true) : keyLt a c = true := by
  unfold keyLt at *
  by_cases hab : a.length > b.length
  · by_cases hbc : b.length > c.length
    · have : a.length > c.length := by omega
      simp [this]
    · simp only [hbc, if_false] at h2
      by_cases hcb : b.length < c.length
      · simp [hcb] at h2
      · have : a.length > c.length := by omega
        simp [this]
  · simp only [hab, if_false] at h1
    by_cases hba : a.length < b.length
    · simp [hba] at h1
    · simp only [hba, if_false] at h1
      by_cases hbc : b.length > c.length
      · have : a.length > c.length := by omega
        simp [this]
      · simp only [hbc, if_false] at h2
        by_cases hcb : b.length < c.length
        · simp [hcb] at h2
        · simp only [hcb, if_false] at h2
          have h3 : ¬ a.length > c.length := by omega
          have h4 : ¬ a.length < c.length := by omega
          simp only [h3, h4, if_false]
          exact strLt_trans a b c h1 h2

theorem keyLt_total (a b : List Char) (h : a ≠ b) : keyLt a b = true ∨ keyLt b a = true := by
  unfold keyLt
  by_cases hab : a.length > b.length
  · left; simp [hab]
  · by_cases hba : b.length > a.length
    · right; simp [hba]
    · have h1 : ¬ a.length < b.length := by omega
      have h2 : ¬ b.length < a.length := by omega
      simp only [hab, hba, h1, h2, if_false]
      exact strLt_total a b h

theorem keyLt_asymm (a b : List Char) (h : keyLt a b = true) : keyLt b a = false := by
  cases hba : keyLt b a with
  | false => rfl
  | true =>
    have := keyLt_trans a b a h hba
    rw [keyLt_irrefl] at this
    exact absurd this (by simp)

/-! ### strictly sorted lists are determined by their elements -/

def Sorted (l : List (List Char)) : Prop := l.Pairwise (fun a b => keyLt a b = true)

theorem insertSorted_mem (x : List Char) (l : List (List Char)) (y : List Char) :
    y ∈ insertSorted keyLt x l ↔ y = x ∨ y ∈ l := by
  induction l with
  | nil => simp [insertSorted]
  | cons z zs ih =>
    simp only [insertSorted]
    split
    · simp
    · simp [ih]; constructor
      · rintro (h | h | h) <;> simp [h]
      · rintro (h | h | h) <;> simp [h]

theorem insertSorted_sorted (x : List Char) (l : List (List Char)) (hs : Sorted l) (hx : x ∉ l) :
    Sorted (insertSorted keyLt x l) := by
  induction l with
  | nil => simp [insertSorted, Sorted]
  | cons z zs ih =>
    simp only [insertSorted]
    have hzs : Sorted zs := (List.pairwise_cons.mp hs).2
    have hz : ∀ w ∈ zs, keyLt z w = true := (List.pairwise_cons.mp hs).1
    split
    · next hlt =>
      refine List.pairwise_cons.mpr ⟨?_, hs⟩
      intro w hw
      simp at hw
      rcases hw with rfl | hw
      · exact hlt
      · exact keyLt_trans x z w hlt (hz w hw)
    · next hnlt =>
      have hxz : x ≠ z := fun e => hx (by simp [e])
      have hzx : keyLt z x = true := by
        rcases keyLt_total x z hxz with h | h
        · exact absurd h hnlt
        · exact h
      refine List.pairwise_cons.mpr ⟨?_, ih hzs (fun h => hx (by simp [h]))⟩
      intro w hw
      rw [insertSorted_mem] at hw
      rcases hw with rfl | hw
      · exact hzx
      · exact hz w hw

theorem sorted_ext : ∀ (l1 l2 : List (List Char)), Sorted l1 → Sorted l2 → (∀ w, w ∈ l1 ↔ w ∈ l2) → l1 = l2
  | [], [], _, _, _ => rfl
  | [], y :: ys, _, _, h => by have := (h y).mpr (by simp); simp at this
  | x :: xs, [], _, _, h => by have := (h x).mp (by simp); simp at this
  | x :: xs, y :: ys, h1, h2, h => by
    have hx := (List.pairwise_cons.mp h1)
    have hy := (List.pairwise_cons.mp h2)
    have hxy : x = y := by
      have hxin : x ∈ y :: ys := (h x).mp (by simp)
      have hyin : y ∈ x :: xs := (h y).mpr (by simp)
      simp at hxin hyin
      rcases hxin with e | hxin
      · exact e
      · rcases hyin with e | hyin
        · exact e.symm
        · have a1 := hy.1 x hxin
          have a2 := hx.1 y hyin
          rw [keyLt_asymm y x a1] at a2
          exact absurd a2 (by simp)
    subst hxy
    congr 1
    apply sorted_ext xs ys hx.2 hy.2
    intro w
    have hxnot1 : x ∉ xs := fun hin => by have := hx.1 x hin; rw [keyLt_irrefl] at this; exact absurd this (by simp)
    have hxnot2 : x ∉ ys := fun hin => by have := hy.1 x hin; rw [keyLt_irrefl] at this; exact absurd this (by simp)
    constructor
    · intro hw
      have := (h w).mp (by simp [hw])
      simp at this
      rcases this with e | hin
      · subst e; exact absurd hw hxnot1
      · exact hin
    · intro hw
      have := (h w).mpr (by simp [hw])
      simp at this
      rcases this with e | hin
      · subst e; exact absurd hw hxnot2
      · exact hin

/-! ### the sorted list of `mk` is determined by the set of words -/

theorem dedup_mem (l : List (List Char)) (w : List Char) : w ∈ dedup l ↔ w ∈ l := by
  unfold dedup
  have : ∀ (acc : List (List Char)), w ∈ l.foldl (fun acc x => if acc.contains x then acc else acc ++ [x]) acc ↔ w ∈ acc ∨ w ∈ l := by
    induction l with
    | nil => intro acc; simp
    | cons x xs ih =>
      intro acc
      simp only [List.foldl_cons]
      rw [ih]
      by_cases hc : acc.contains x = true
      · simp only [hc, if_true]
        have hx : x ∈ acc := by simpa using hc
        constructor
        · rintro (h | h) <;> simp [h]
        · rintro (h | h)
          · left; exact h
          · simp at h; rcases h with rfl | h
            · left; exact hx
            · right; exact h
      · have hcf : acc.contains x = false := by simpa using hc
        simp only [hcf, Bool.false_eq_true, if_false, List.mem_append, List.mem_cons, List.not_mem_nil, or_false]
        constructor
        · rintro ((h | h) | h)
          · exact Or.inl h
          · exact Or.inr (Or.inl h)
          · exact Or.inr (Or.inr h)
        · rintro (h | h | h)
          · exact Or.inl (Or.inl h)
          · exact Or.inl (Or.inr h)
          · exact Or.inr h
  simpa using this []

theorem dedup_nodup (l : List (List Char)) : (dedup l).Nodup := by
  unfold dedup
  have : ∀ (acc : List (List Char)), acc.Nodup → (l.foldl (fun acc x => if acc.contains x then acc else acc ++ [x]) acc).Nodup := by
    induction l with
    | nil => intro acc h; simpa using h
    | cons x xs ih =>
      intro acc h
      simp only [List.foldl_cons]
      apply ih
      by_cases hc : acc.contains x = true
      · simp only [hc, if_true]; exact h
      · have hcf : acc.contains x = false := by simpa using hc
        simp only [hcf, Bool.false_eq_true, if_false]
        have hx : x ∉ acc := by simpa using hc
        rw [List.nodup_append]
        refine ⟨h, by simp, ?_⟩
        intro a ha b hb
        simp at hb; subst hb
        intro e; subst e; exact hx ha
  exact this [] (by simp)

theorem sortAll_spec (l : List (List Char)) (hl : l.Nodup) :
    ∀ acc, Sorted acc → (∀ w ∈ l, w ∉ acc) →
      Sorted (l.foldl (fun acc w => insertSorted keyLt w acc) acc) ∧
      ∀ w, w ∈ l.foldl (fun acc w => insertSorted keyLt w acc) acc ↔ w ∈ acc ∨ w ∈ l := by
  induction l with
  | nil => intro acc hs _; exact ⟨hs, by simp⟩
  | cons x xs ih =>
    intro acc hs hdis
    simp only [List.foldl_cons]
    have hx : x ∉ acc := hdis x (by simp)
    have hnd := List.nodup_cons.mp hl
    obtain ⟨h1, h2⟩ := ih hnd.2 (insertSorted keyLt x acc) (insertSorted_sorted x acc hs hx) (by
      intro w hw hin
      rw [insertSorted_mem] at hin
      rcases hin with e | hin
      · subst e; exact hnd.1 hw
      · exact hdis w (by simp [hw]) hin)
    refine ⟨h1, ?_⟩
    intro w
    rw [h2, insertSorted_mem]
    simp only [List.mem_cons]
    constructor
    · rintro ((h | h) | h) <;> simp [h]
    · rintro (h | h | h) <;> simp [h]

/-- **The alternation order is a function of the set of (lower-cased) words.** -/
theorem words_determined_by_set (e : WEnv) (ws1 ws2 : List (List Char)) (salt : List Char) (res : List (List Char))
    (hset : ∀ w, w ∈ ws1.map (lowerStr e) ↔ w ∈ ws2.map (lowerStr e)) :
    (mk e ws1 salt res).words = (mk e ws2 salt res).words := by
  unfold mk
  simp only
  obtain ⟨s1, m1⟩ := sortAll_spec (dedup (ws1.map (lowerStr e))) (dedup_nodup _) [] (by simp [Sorted]) (by simp)
  obtain ⟨s2, m2⟩ := sortAll_spec (dedup (ws2.map (lowerStr e))) (dedup_nodup _) [] (by simp [Sorted]) (by simp)
  apply sorted_ext _ _ s1 s2
  intro w
  rw [m1, m2]
  simp only [List.not_mem_nil, false_or, dedup_mem]
  exact hset w

end Words
end Netconan
