import Netconan.Model.Secrets
import Netconan.Props.C18
/-! Lemmas about the secret-anonymization model. -/
namespace Netconan
namespace Secrets
open Regex Generated

/-! ### enclosing text: nothing is lost -/

theorem startsWith_split {s p : List Char} (h : startsWith s p = true) : p ++ s.drop p.length = s := by
  unfold startsWith at h
  have : s.take p.length = p := by simpa using h
  conv => rhs; rw [← List.take_append_drop p.length s, this]

theorem endsWith_split {s p : List Char} (h : endsWith s p = true) : s.take (s.length - p.length) ++ p = s := by
  unfold endsWith at h
  simp only [Bool.and_eq_true, decide_eq_true_eq, beq_iff_eq] at h
  conv => rhs; rw [← List.take_append_drop (s.length - p.length) s, h.2]

theorem stripHeads_concat (ts : List (List Char)) (h v : List Char) :
    (stripHeads ts h v).1 ++ (stripHeads ts h v).2 = h ++ v := by
  unfold stripHeads
  induction ts generalizing h v with
  | nil => simp
  | cons t ts ih =>
    simp only [List.foldl_cons]
    by_cases hs : startsWith v t = true
    · simp only [hs, if_true]
      rw [ih, List.append_assoc, startsWith_split hs]
    · simp only [hs]
      exact ih h v

theorem stripTails_concat (ts : List (List Char)) (tl v : List Char) :
    (stripTails ts tl v).2 ++ (stripTails ts tl v).1 = v ++ tl := by
  unfold stripTails
  induction ts generalizing tl v with
  | nil => simp
  | cons t ts ih =>
    simp only [List.foldl_cons]
    by_cases hs : endsWith v t = true
    · simp only [hs, if_true]
      rw [ih, ← List.append_assoc, endsWith_split hs]
    · simp only [hs]
      exact ih tl v

theorem stripPassW_concat (hs ts : List (List Char)) (h v t : List Char) :
    (stripPassW hs ts h v t).1 ++ (stripPassW hs ts h v t).2.1 ++ (stripPassW hs ts h v t).2.2 = h ++ v ++ t := by
  unfold stripPassW
  simp only
  rw [List.append_assoc, stripTails_concat, ← List.append_assoc, stripHeads_concat]

theorem extractEnclosingW_concat (hs ts : List (List Char)) (n : Nat) (v h t : List Char) :
    (extractEnclosingW hs ts n v h t).1 ++ (extractEnclosingW hs ts n v h t).2.1 ++ (extractEnclosingW hs ts n v h t).2.2
      = h ++ v ++ t := by
  induction n generalizing v h t with
  | zero => simp [extractEnclosingW]
  | succ n ih =>
    simp only [extractEnclosingW]
    have hp := stripPassW_concat hs ts h v t
    split
    · exact hp
    · rw [ih]; exact hp

/-- **`head ++ value ++ tail` is the original text**, whatever was stripped -/
theorem extractEnclosing_concat (n : Nat) (v h t : List Char) :
    (extractEnclosing n v h t).1 ++ (extractEnclosing n v h t).2.1 ++ (extractEnclosing n v h t).2.2
      = h ++ v ++ t := extractEnclosingW_concat headText tailText n v h t

/-! ### the lookup table -/

theorem Lookup.get_set_self (l : Lookup) (k v : List Char) : (l.set k v).get k = some v := by
  unfold Lookup.set Lookup.get
  split
  · next hs =>
    induction l with
    | nil => simp at hs
    | cons e es ih =>
      simp only [List.map_cons, List.find?_cons]
      by_cases hek : e.1 = k
      · simp [hek]
      · have : (e.1 == k) = false := by simpa using hek
        simp only [this, Bool.false_eq_true, if_false]
        apply ih
        simpa [List.find?_cons, this] using hs
  · next hs =>
    have : l.find? (·.1 == k) = none := by
      cases hf : l.find? (·.1 == k) <;> simp_all
    simp [List.find?_append, this]

theorem Lookup.length_set_of_absent (l : Lookup) (k v : List Char) (h : l.get k = none) :
    (l.set k v).length = l.length + 1 := by
  unfold Lookup.get at h
  unfold Lookup.set
  have : l.find? (·.1 == k) = none := by
    cases hf : l.find? (·.1 == k) <;> simp_all
  simp [this]

theorem Lookup.set_of_absent (l : Lookup) (k v : List Char) (h : l.get k = none) :
    l.set k v = l ++ [(k, v)] := by
  unfold Lookup.get at h
  unfold Lookup.set
  have : l.find? (·.1 == k) = none := by
    cases hf : l.find? (·.1 == k) <;> simp_all
  simp [this]

/-! ### pseudonyms are plain ASCII -/

theorem digit_lt : ∀ d, d < 10 → (Char.ofNat (48 + d)).toNat < 256 := by decide

theorem decDigitsAux_lt (f n : Nat) (acc : List Char) (hacc : ∀ c ∈ acc, c.toNat < 256) :
    ∀ c ∈ decDigitsAux f n acc, c.toNat < 256 := by
  induction f generalizing n acc with
  | zero => simpa [decDigitsAux] using hacc
  | succ f ih =>
    simp only [decDigitsAux]
    have hd := digit_lt (n % 10) (Nat.mod_lt _ (by decide))
    split
    · intro c hc
      simp only [List.mem_cons] at hc
      rcases hc with rfl | hc
      · exact hd
      · exact hacc c hc
    · apply ih
      intro c hc
      simp only [List.mem_cons] at hc
      rcases hc with rfl | hc
      · exact hd
      · exact hacc c hc

theorem pseudonym_lt (n : Nat) : ∀ c ∈ pseudonym n, c.toNat < 256 := by
  intro c hc
  simp only [pseudonym, List.mem_append] at hc
  rcases hc with hc | hc
  · revert c; unfold pseudonymPrefix; decide
  · exact decDigitsAux_lt _ _ [] (by simp) c hc

theorem pseudonym_ne_nil (n : Nat) : pseudonym n ≠ [] := by
  simp [pseudonym, pseudonymPrefix]

/-! ### the Juniper re-encoding never fails -/

theorem encrypt_ok (plain salt : List Char) : ∃ c, Juniper.encrypt plain (some salt) = .ok c := by
  obtain ⟨sc, e, hsc, he⟩ := Juniper.saltChar_spec (some salt)
  obtain ⟨_, ⟨si, hsi⟩, _⟩ := Juniper.extra_spec he
  refine ⟨junMagic ++ [sc] ++ Juniper.fixedc e ++ (Juniper.encBody si 0 (plain.map Char.toNat)).map Juniper.numAlpha, ?_⟩
  simp [Juniper.encrypt, hsc, he, hsi]

theorem renderAs_ok (x : Ext) (salt : List Char) (fmt : Fmt) (n : Nat) (base : List Char) :
    ∃ a, renderAs x salt fmt n base = .ok a := by
  cases fmt <;> simp only [renderAs] <;> first | exact ⟨_, rfl⟩ | exact encrypt_ok base salt

end Secrets
end Netconan
