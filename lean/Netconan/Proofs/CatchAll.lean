import Netconan.Proofs.RegexLang
import Netconan.Pinned.Patterns
/-!
# The catch-all patterns for `$9$…` / `$1$…` values find every such token

`catchAll_finds`: if the line contains, at a position that is the start of the line or is preceded by a character
outside `[-_a-zA-Z0-9]`, the three marker characters followed by at least one character of the value alphabet, then
`search` with the catch-all pattern does not answer "no match" – completeness of backtracking (`m_complete`) plus the
look-behind alternatives evaluated by hand.
-/
namespace Netconan
namespace NoSurvival
open Regex

/-- `(?:(?<=P)|(?<=P )|(?<=^)|(?<=^ ))` -/
def allowedPrefix (p sp : CharSet) : Re :=
  .alt (.look false false 1 (.chr p)) (.alt (.look false false 2 (.seq (.chr p) (.chr sp)))
    (.alt (.look false false 0 .bol) (.look false false 1 (.seq .bol (.chr sp)))))

/-- the value part: `("?\$X\$[set]+)` -/
def hashCore (q d x v : CharSet) : Re :=
  .seq (.rep 0 (some 1) true (.chr q)) (.seq (.chr d) (.seq (.chr x) (.seq (.chr d) (.rep 1 none true (.chr v)))))

def catchAll (p sp q d x v : CharSet) : Re := .seq (allowedPrefix p sp) (.grp 1 (hashCore q d x v))

theorem allowedPrefix_complete (p sp : CharSet) (k : K) (z : Z) (cs : Caps)
    (hprev : z.left = [] ∨ ∃ c l, z.left = c :: l ∧ inRanges p c = true) (hk : ∀ cs', k z cs' ≠ .none) :
    ∀ fuel, m fuel (allowedPrefix p sp) k z cs ≠ .none := by
  intro fuel
  match fuel with
  | 0 => simp [m]
  | 1 => simp [allowedPrefix, m, Res.orElse]
  | 2 =>
    rcases hprev with hl | ⟨c, l, hl, hc⟩
    · simp [allowedPrefix, m, Res.orElse, stepBack, hl]
    · simp [allowedPrefix, m, Res.orElse, stepBack, hl]
  | 3 =>
    rcases hprev with hl | ⟨c, l, hl, hc⟩
    · simp [allowedPrefix, m, Res.orElse, stepBack, hl]
    · have := hk cs
      simp [allowedPrefix, m, Res.orElse, stepBack, hl, hc]
      cases hkz : k z cs <;> simp_all
  | 4 =>
    rcases hprev with hl | ⟨c, l, hl, hc⟩
    · simp [allowedPrefix, m, Res.orElse, stepBack, hl]
    · have := hk cs
      simp [allowedPrefix, m, Res.orElse, stepBack, hl, hc]
      cases hkz : k z cs <;> simp_all
  | f + 5 =>
    rcases hprev with hl | ⟨c, l, hl, hc⟩
    · have := hk cs
      simp [allowedPrefix, m, Res.orElse, stepBack, hl]
      cases hkz : k z cs <;> simp_all
    · have := hk cs
      simp [allowedPrefix, m, Res.orElse, stepBack, hl, hc]
      cases hkz : k z cs <;> simp_all

/-- the value `d x d c` (`$9$c`, `$1$c`) is a word of the core language -/
theorem hashCore_lang (q d x v : CharSet) (cd cx c : Char) (hd : inRanges d cd = true) (hx : inRanges x cx = true)
    (hc : inRanges v c = true) : Lang (hashCore q d x v) [cd, cx, cd, c] := by
  unfold hashCore
  have h1 : Lang (.rep 1 none true (.chr v)) [c] := by
    have := Lang.repMore (mn := 1) (mx := none) (g := true) (r := .chr v) (w1 := [c]) (w2 := []) (by simp) (.chr hc) (by simp)
      (by simpa using (Lang.repStop (mx := none) (g := true) (r := .chr v)))
    simpa using this
  have := Lang.seq (Lang.repStop (mx := some 1) (g := true) (r := .chr q))
    (Lang.seq (.chr hd) (Lang.seq (.chr hx) (Lang.seq (.chr hd) h1)))
  simpa using this

/-- at a position where such a value starts after an allowed prefix, the pattern does not answer "no match" -/
theorem catchAll_matchAt (p sp q d x v : CharSet) (z : Z) (cd cx c : Char) (rest : List Char)
    (hr : z.right = cd :: cx :: cd :: c :: rest) (hd : inRanges d cd = true) (hx : inRanges x cx = true) (hc : inRanges v c = true)
    (hprev : z.left = [] ∨ ∃ c0 l, z.left = c0 :: l ∧ inRanges p c0 = true) (fuel : Nat) :
    matchAt (catchAll p sp q d x v) fuel z ≠ .none := by
  unfold matchAt catchAll
  cases fuel with
  | zero => simp [m]
  | succ f =>
    simp only [m]
    apply allowedPrefix_complete p sp _ z [] hprev
    intro cs'
    cases f with
    | zero => simp [m]
    | succ f' =>
      simp only [m]
      refine m_complete (hashCore_lang q d x v cd cx c hd hx hc) f' _ z cs' rest (by simpa using hr) ?_
      intro cs''
      simp

/-- **`search` finds it**: whatever stands before and after on the line -/
theorem searchFrom_finds (r : Re) (fuel : Nat) : ∀ (n : Nat) (z : Z) (pre : List Char) (z1 : Z),
    z.right = pre ++ z1.right → z1.left = pre.reverse ++ z.left → matchAt r fuel z1 ≠ .none →
    searchFrom r fuel n z ≠ .ok none := by
  intro n
  induction n with
  | zero => intro z pre z1 _ _ _; simp [searchFrom]
  | succ n ih =>
    intro z pre z1 hr hl hm
    simp only [searchFrom]
    cases hmz : matchAt r fuel z with
    | ok p => obtain ⟨a, b⟩ := p; simp
    | oof => simp
    | none =>
      cases pre with
      | nil =>
        have : z1 = z := by
          cases z1; cases z; simp_all
        rw [this] at hm
        exact absurd hmz hm
      | cons c pre' =>
        simp only [List.cons_append] at hr
        simp only [hr]
        exact ih ⟨c :: z.left, pre' ++ z1.right⟩ pre' z1 rfl (by simp [hl]) hm

end NoSurvival
end Netconan

namespace Netconan
namespace NoSurvival
open Regex
open Pinned.Patterns in
def pinnedCatch9 : Re := catchAll cs19 cs20 cs37 cs64 cs71 cs72
open Pinned.Patterns in
def pinnedCatch1 : Re := catchAll cs19 cs20 cs37 cs64 cs6 cs72

/-- the last two groups of the pinned table are these two patterns, with the value as group 1 -/
theorem pinned_catch_groups :
    Pinned.Patterns.secretGroups.drop 53 = [[(pinnedCatch9, some 1, none)], [(pinnedCatch1, some 1, none)]] := rfl

/-- **A `$9$` / `$1$` value is found wherever it stands**: at the start of the (stripped) line or after any character
outside `[-_a-zA-Z0-9]`, and whatever follows it. -/
theorem catchAll_finds (marker : Char) (r : Re) (hr : (marker = '9' ∧ r = pinnedCatch9) ∨ (marker = '1' ∧ r = pinnedCatch1))
    (pre rest : List Char) (c : Char) (hc : inRanges Pinned.Patterns.cs72 c = true)
    (hprev : pre = [] ∨ ∃ c0, pre.getLast? = some c0 ∧ inRanges Pinned.Patterns.cs19 c0 = true) :
    search r (pre ++ '$' :: marker :: '$' :: c :: rest) ≠ .ok none := by
  have hleft : pre.reverse = [] ∨ ∃ c0 l, pre.reverse = c0 :: l ∧ inRanges Pinned.Patterns.cs19 c0 = true := by
    rcases hprev with rfl | ⟨c0, hl, hin⟩
    · left; rfl
    · right
      cases hrev : pre.reverse with
      | nil => simp at hrev; subst hrev; simp at hl
      | cons a l =>
        have : pre.getLast? = some a := by
          have := congrArg List.head? hrev
          simpa [List.head?_reverse] using this
        rw [this] at hl
        exact ⟨a, l, rfl, by rw [Option.some.inj hl]; exact hin⟩
  have key : ∀ fuel, matchAt r fuel ⟨pre.reverse, '$' :: marker :: '$' :: c :: rest⟩ ≠ .none := by
    intro fuel
    rcases hr with ⟨rfl, rfl⟩ | ⟨rfl, rfl⟩
    · exact catchAll_matchAt _ _ _ _ _ _ _ '$' '9' c rest rfl (by decide) (by decide) hc hleft fuel
    · exact catchAll_matchAt _ _ _ _ _ _ _ '$' '1' c rest rfl (by decide) (by decide) hc hleft fuel
  unfold search
  have := searchFrom_finds r (fuelFor r (pre ++ '$' :: marker :: '$' :: c :: rest).length) ((pre ++ '$' :: marker :: '$' :: c :: rest).length + 2)
    ⟨[], pre ++ '$' :: marker :: '$' :: c :: rest⟩ pre ⟨pre.reverse, '$' :: marker :: '$' :: c :: rest⟩ rfl (by simp) (key _)
  cases hs : searchFrom r (fuelFor r (pre ++ '$' :: marker :: '$' :: c :: rest).length) ((pre ++ '$' :: marker :: '$' :: c :: rest).length + 2)
      ⟨[], pre ++ '$' :: marker :: '$' :: c :: rest⟩ with
  | ok o =>
    cases o with
    | none => exact absurd hs this
    | some p => obtain ⟨a, b, cc⟩ := p; simp
  | none => simp
  | oof => simp

end NoSurvival
end Netconan
