import Netconan.Proofs.Ipv4Parse
/-!
# A computable test for the IPv4 core language (run against CPython's `re.fullmatch` by the harness)
-/
namespace Netconan
namespace NoSurvival
open Regex Secrets IpText

def partB (p : List Char) : Bool := !p.isEmpty && p.all isDig && decide (digitsVal p ≤ 255)

theorem partB_iff (p : List Char) : partB p = true ↔ Part p := by
  unfold partB Part
  simp only [Bool.and_eq_true, Bool.not_eq_true', decide_eq_true_eq, List.isEmpty_eq_false_iff]
  constructor
  · rintro ⟨⟨a, b⟩, c⟩; exact ⟨a, b, c⟩
  · rintro ⟨a, b, c⟩; exact ⟨⟨a, b⟩, c⟩

def isQuadB (w : List Char) : Bool :=
  match splitOn '.' w with
  | [a, b, c, d] => partB a && partB b && partB c && partB d
  | _ => false

/-- joining what `splitOn` produced gives the text back -/
theorem splitOn_go_join : ∀ (s cur : List Char) (parts : List (List Char)), splitOn.go '.' s cur = parts →
    ∃ first rest, parts = first :: rest ∧
      cur.reverse ++ s = first ++ (rest.map (fun p => '.' :: p)).flatten := by
  intro s
  induction s with
  | nil =>
    intro cur parts h
    simp only [splitOn.go] at h
    exact ⟨cur.reverse, [], h.symm, by simp⟩
  | cons c s ih =>
    intro cur parts h
    simp only [splitOn.go] at h
    by_cases hc : (c == '.') = true
    · simp only [hc, if_true] at h
      obtain ⟨f2, r2, hp, hj⟩ := ih [] (splitOn.go '.' s []) rfl
      have hc' : c = '.' := by simpa using hc
      refine ⟨cur.reverse, f2 :: r2, by rw [← h, hp], ?_⟩
      simp only [List.reverse_nil, List.nil_append] at hj
      simp [hc', hj]
    · simp only [hc, if_false] at h
      obtain ⟨f2, r2, hp, hj⟩ := ih (c :: cur) parts h
      exact ⟨f2, r2, hp, by simpa using hj⟩

theorem isQuadB_iff (w : List Char) : isQuadB w = true ↔ Lang core4 w := by
  rw [lang_core4_iff]
  constructor
  · intro h
    unfold isQuadB at h
    obtain ⟨first, rest, hp, hj⟩ := splitOn_go_join w [] (splitOn '.' w) rfl
    unfold splitOn at h
    unfold splitOn at hp
    rw [hp] at h
    match rest, h, hj with
    | [b, c, d], h, hj =>
      simp only [Bool.and_eq_true] at h
      obtain ⟨⟨⟨h1, h2⟩, h3⟩, h4⟩ := h
      refine ⟨first, b, c, d, (partB_iff _).mp h1, (partB_iff _).mp h2, (partB_iff _).mp h3, (partB_iff _).mp h4, ?_⟩
      simpa using hj
  · rintro ⟨p1, p2, p3, p4, h1, h2, h3, h4, rfl⟩
    unfold isQuadB
    rw [splitOn_quad p1 p2 p3 p4 h1.2.1 h2.2.1 h3.2.1 h4.2.1]
    simp [(partB_iff _).mpr h1, (partB_iff _).mpr h2, (partB_iff _).mpr h3, (partB_iff _).mpr h4]

end NoSurvival
end Netconan
