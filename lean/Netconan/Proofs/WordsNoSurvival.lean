import Netconan.Proofs.WordsLine
/-!
# No listed word survives `SensitiveWordAnonymizer.anonymize` (model level)
-/
namespace Netconan
namespace NoSurvival
open Regex Secrets Words

/-- a listed word as the pattern sees it: one character set per character (IGNORECASE resolved) -/
def setsOf (e : WEnv) (w : List Char) : List CharSet := w.map e.icase

/-- the words of the anonymizer as the pattern sees them -/
def patWords (e : WEnv) (t : T) : List (List CharSet) := t.words.map (setsOf e)

theorem mk_re (e : WEnv) (sens : List (List Char)) (salt : List Char) (res : List (List Char)) :
    (mk e sens salt res).re = wordRe (patWords e (mk e sens salt res)) := by
  unfold mk wordRe patWords
  simp only [List.map_map]
  congr 2
  apply List.map_congr_left
  intro w _
  exact literalRe_eq e w

theorem hexNib_mem : ∀ n, n < 16 → isHex (hexNib n) = true := by decide

theorem hexOfBytes_isHex (b : ByteArray) : ∀ c ∈ hexOfBytes b, isHex c = true := by
  intro c hc
  simp only [hexOfBytes, List.mem_flatten, List.mem_map] at hc
  obtain ⟨l, ⟨x, _, rfl⟩, hcl⟩ := hc
  simp only [List.mem_cons, List.not_mem_nil, or_false] at hcl
  rcases hcl with rfl | rfl
  · exact hexNib_mem _ (Nat.mod_lt _ (by decide))
  · exact hexNib_mem _ (Nat.mod_lt _ (by decide))

theorem toList_loop_length (bs : ByteArray) (i : Nat) (r : List UInt8) :
    (ByteArray.toList.loop bs i r).length = r.length + (bs.size - i) := by
  fun_induction ByteArray.toList.loop bs i r with
  | case1 i r h ih => rw [ih]; simp; omega
  | case2 i r h => simp; omega

theorem toList_length (bs : ByteArray) : bs.toList.length = bs.size := by
  unfold ByteArray.toList
  rw [toList_loop_length]; simp

theorem hexOfBytes_length (b : ByteArray) : (hexOfBytes b).length = 2 * b.size := by
  unfold hexOfBytes
  have : ∀ l : List UInt8, ((l.map (fun x => [hexNib (x.toNat / 16 % 16), hexNib (x.toNat % 16)])).flatten).length = 2 * l.length := by
    intro l
    induction l with
    | nil => rfl
    | cons a l ih => simp only [List.map_cons, List.flatten_cons, List.length_append, ih, List.length_cons, List.length_nil]; omega
  rw [this, toList_length]

/-- the pseudonym is exactly `wordLen` hexadecimal digits (an MD5 digest has 16 bytes) -/
theorem replacement_shape (salt matched : List Char) :
    (replacement salt matched).length = Generated.wordLen ∧ (replacement salt matched).all isHex = true := by
  constructor
  · unfold replacement
    rw [List.length_take, hexOfBytes_length, Md5.digest_size]
    decide
  · rw [List.all_eq_true]
    intro c hc
    exact hexOfBytes_isHex _ c (List.mem_of_mem_take hc)

/-- **Token level**: a token that is not a conflicting reserved word contains no listed word after
the substitution -/
theorem token_no_survivor (e : WEnv) (sens : List (List Char)) (salt : List Char) (res : List (List Char))
    (hW : (mk e sens salt res).words ≠ []) (hne : ∀ w ∈ (mk e sens salt res).words, w ≠ [])
    (tok out : List Char) (hnc : (mk e sens salt res).conflicting.contains (lowerStr e tok) = false)
    (h : anonToken e (mk e sens salt res) tok = .ok out) :
    ∀ w ∈ (mk e sens salt res).words, WordOK Generated.wordLen (setsOf e w) → NoOcc (setsOf e w) out := by
  intro w hw hok
  unfold anonToken at h
  rw [hnc] at h
  simp only [Bool.false_eq_true, if_false] at h
  rw [mk_re] at h
  refine sub_no_survivor (patWords e (mk e sens salt res)) ?_ ?_ Generated.wordLen _ ?_ tok out h (setsOf e w) ?_ hok
  · unfold patWords; simpa using hW
  · intro x hx
    unfold patWords at hx
    simp only [List.mem_map] at hx
    obtain ⟨y, hy, rfl⟩ := hx
    have := hne y hy
    unfold setsOf; simpa using this
  · intro mt; exact replacement_shape _ _
  · unfold patWords; exact List.mem_map_of_mem hw

/-- `search` found nothing: no listed word matches anywhere -/
theorem searchFrom_none (W : List (List CharSet)) (hne : ∀ w ∈ W, w ≠ []) (fuel : Nat) :
    ∀ (n : Nat) (z : Z), searchFrom (wordRe W) fuel n z = .ok none → ∀ w ∈ W, NoOcc w z.right := by
  intro n
  induction n with
  | zero => intro z h; simp [searchFrom] at h
  | succ n ih =>
    intro z h w hw
    simp only [searchFrom] at h
    cases hm : matchAt (wordRe W) fuel z with
    | ok p => simp [hm] at h
    | oof => simp [hm] at h
    | none =>
      simp only [hm] at h
      have h0 := matchAt_none W fuel z hm w hw
      cases hr : z.right with
      | nil => exact noOcc_nil w (hne w hw)
      | cons c rest =>
        simp only [hr] at h
        have := ih ⟨c :: z.left, rest⟩ h w hw
        intro k
        cases k with
        | zero => rw [hr] at h0; simpa using h0
        | succ k => simpa using this k

/-- the two lists have the same length and are related element by element -/
inductive All2 {α β} (R : α → β → Prop) : List α → List β → Prop
  | nil : All2 R [] []
  | cons {a b l1 l2} : R a b → All2 R l1 l2 → All2 R (a :: l1) (b :: l2)

theorem All2.imp {α β} {R S : α → β → Prop} (h : ∀ a b, R a b → S a b) {l1 l2} (hr : All2 R l1 l2) : All2 S l1 l2 := by
  induction hr with
  | nil => exact .nil
  | cons hab _ ih => exact .cons (h _ _ hab) ih

theorem mapRes_forall {α β} (f : α → Res β) : ∀ (l : List α) (r : List β), mapRes f l = .ok r →
    All2 (fun a b => f a = .ok b) l r := by
  intro l
  induction l with
  | nil => intro r h; simp [mapRes] at h; subst h; exact .nil
  | cons a as ih =>
    intro r h
    simp only [mapRes] at h
    cases hf : f a with
    | ok b =>
      simp only [hf] at h
      cases hm : mapRes f as with
      | ok bs => simp only [hm] at h; simp at h; subst h; exact .cons hf (ih bs hm)
      | oof => simp [hm] at h
      | none => simp [hm] at h
    | oof => simp [hf] at h
    | none => simp [hf] at h

/-- **Line level**: the output line is `leading ++ tokens joined by one space ++ trailing`, and every
output token either is a conflicting reserved word kept as written or contains no listed word; a
line without such tokens contains no listed word at all. -/
theorem line_no_survivor (e : WEnv) (sens : List (List Char)) (salt : List Char) (res : List (List Char))
    (hW : (mk e sens salt res).words ≠ []) (hne : ∀ w ∈ (mk e sens salt res).words, w ≠ [])
    (line out : List Char) (h : anonymize e (mk e sens salt res) line = .ok out)
    (w : List Char) (hw : w ∈ (mk e sens salt res).words) (hok : WordOK Generated.wordLen (setsOf e w))
    (hsp : ∀ c, e.isSpace c = true → Unmatchable (setsOf e w) c) (hblank : e.isSpace ' ' = true) :
    (out = line ∧ NoOcc (setsOf e w) out) ∨
    ∃ outs : List (List Char),
      out = (splitLine e.isSpace line).1 ++ joinSp outs ++ (splitLine e.isSpace line).2.2 ∧
      All2 (fun tok o =>
          (o = tok ∧ (mk e sens salt res).conflicting.contains (lowerStr e tok) = true) ∨ NoOcc (setsOf e w) o)
        (splitLine e.isSpace line).2.1 outs ∧
      ((∀ tok ∈ (splitLine e.isSpace line).2.1, (mk e sens salt res).conflicting.contains (lowerStr e tok) = false) →
        NoOcc (setsOf e w) out) := by
  have hwne : setsOf e w ≠ [] := by have := hne w hw; unfold setsOf; simpa using this
  unfold anonymize at h
  cases hs : search (mk e sens salt res).re line with
  | oof => simp [hs] at h
  | none => simp [hs] at h
  | ok om =>
    cases om with
    | none =>
      left
      simp [hs] at h
      refine ⟨h.symm, ?_⟩
      rw [← h]
      rw [mk_re] at hs
      unfold search at hs
      cases hsf : searchFrom (wordRe (patWords e (mk e sens salt res)))
          (fuelFor (wordRe (patWords e (mk e sens salt res))) line.length) (line.length + 2) ⟨[], line⟩ with
      | oof => simp [hsf] at hs
      | none => simp [hsf] at hs
      | ok o =>
        cases o with
        | some p => obtain ⟨a, b, c⟩ := p; simp [hsf] at hs
        | none =>
          have := searchFrom_none (patWords e (mk e sens salt res)) ?_ _ _ _ hsf (setsOf e w)
            (by unfold patWords; exact List.mem_map_of_mem hw)
          · exact this
          · intro x hx
            unfold patWords at hx
            simp only [List.mem_map] at hx
            obtain ⟨y, hy, rfl⟩ := hx
            have := hne y hy
            unfold setsOf; simpa using this
    | some mt =>
      right
      simp only [hs] at h
      cases hm : mapRes (anonToken e (mk e sens salt res)) (splitLine e.isSpace line).2.1 with
      | oof => simp [hm] at h
      | none => simp [hm] at h
      | ok outs =>
        simp only [hm] at h
        simp at h
        have hfa := mapRes_forall _ _ _ hm
        have hper : All2 (fun tok o =>
            (o = tok ∧ (mk e sens salt res).conflicting.contains (lowerStr e tok) = true) ∨ NoOcc (setsOf e w) o)
            (splitLine e.isSpace line).2.1 outs := by
          refine All2.imp ?_ hfa
          intro tok o hto
          cases hc : (mk e sens salt res).conflicting.contains (lowerStr e tok) with
          | true =>
            left
            unfold anonToken at hto
            rw [hc] at hto
            simp at hto
            exact ⟨hto.symm, rfl⟩
          | false =>
            right
            exact token_no_survivor e sens salt res hW hne tok o hc hto w hw hok
        refine ⟨outs, by rw [← h, List.append_assoc], hper, ?_⟩
        intro hnoc
        rw [← h]
        have htoks : ∀ o ∈ outs, NoOcc (setsOf e w) o := by
          have : ∀ (l1 : List (List Char)) (l2 : List (List Char)),
              All2 (fun tok o =>
                (o = tok ∧ (mk e sens salt res).conflicting.contains (lowerStr e tok) = true) ∨ NoOcc (setsOf e w) o) l1 l2 →
              (∀ tok ∈ l1, (mk e sens salt res).conflicting.contains (lowerStr e tok) = false) →
              ∀ o ∈ l2, NoOcc (setsOf e w) o := by
            intro l1 l2 hf
            induction hf with
            | nil => intro _ o ho; simp at ho
            | cons hab _ ih =>
              intro hall o ho
              simp only [List.mem_cons] at ho
              rcases ho with rfl | ho
              · rcases hab with ⟨_, hc⟩ | hno
                · rw [hall _ (by simp)] at hc; exact absurd hc (by simp)
                · exact hno
              · exact ih (fun t ht => hall t (by simp [ht])) o ho
          exact this _ _ hper hnoc
        have hj := noOcc_joinSp (setsOf e w) hwne (hsp ' ' hblank) outs htoks
        have hsuf := noOcc_suffix_spaces (setsOf e w) hwne (joinSp outs) (splitLine e.isSpace line).2.2
          (fun c hc => hsp c (trailing_spaces e.isSpace line c hc)) hj
        exact noOcc_prefix_spaces (setsOf e w) hwne (splitLine e.isSpace line).1 _
          (fun c hc => hsp c (leading_spaces e.isSpace line c hc)) hsuf

end NoSurvival
end Netconan
