import Netconan.Proofs.RegexLang
/-!
# Membership in `Lang r` decided by the matcher itself (anchored at both ends)

`langB r s`: run the engine on `s` with a continuation that accepts only at the end of the input.  Sound
(`langB_sound`) and complete up to the engine's fuel (`langB_complete`): so the declarative language used in the
scanner theorems can be compared with CPython's `re.fullmatch` on concrete strings (driver operation `lang`).
-/
namespace Netconan
namespace NoSurvival
open Regex

def fullK : K := fun z cs => if z.right.isEmpty then .ok (z, cs) else .none

/-- `some true` / `some false`, or `none` when the engine ran out of fuel -/
def langB (r : Re) (s : List Char) : Option Bool :=
  match m (fuelFor r s.length) r fullK ⟨[], s⟩ [] with
  | .ok _ => some true
  | .none => some false
  | .oof => none

theorem langB_sound (r : Re) (hp : Plain r = true) (s : List Char) (h : langB r s = some true) : Lang r s := by
  unfold langB at h
  cases hm : m (fuelFor r s.length) r fullK ⟨[], s⟩ [] with
  | ok res =>
    obtain ⟨w, rest, cs', hl, hs, hk⟩ := m_sound _ r fullK ⟨[], s⟩ [] res hp hm
    simp only [fullK, after] at hk
    by_cases he : rest.isEmpty = true
    · have : rest = [] := by simpa using he
      subst this
      have : s = w := by simpa using hs
      rw [this]; exact hl
    · simp [he] at hk
  | none => rw [hm] at h; simp at h
  | oof => rw [hm] at h; simp at h

theorem langB_complete (r : Re) (s : List Char) (h : Lang r s) : langB r s ≠ some false := by
  unfold langB
  have := m_complete h (fuelFor r s.length) fullK ⟨[], s⟩ [] [] (by simp) (by intro cs'; simp [fullK, after])
  cases hm : m (fuelFor r s.length) r fullK ⟨[], s⟩ [] with
  | ok res => simp
  | none => exact absurd hm this
  | oof => simp

end NoSurvival
end Netconan
