import Netconan.Proofs.RegexRef
/-!
# The backtracking matcher against the declarative reading of a pattern

`Lang r w`: the word `w` belongs to the language of the look-around-free pattern `r` (the usual
inductive reading of a regular expression; an iteration of an optional repeat is non-empty, as in the
engine).  `m_sound`: every success of the matcher consumed a word of the language and handed the
rest to its continuation.  `m_complete`: if some word of the language is a prefix of the input and
the continuation does not answer "no match" after it, the matcher does not answer "no match" –
backtracking (ordered alternation, greedy and lazy repeats) explores every parse.
-/
namespace Netconan
namespace NoSurvival
open Regex

inductive Lang : Re → List Char → Prop
  | chr {rs c} : inRanges rs c = true → Lang (.chr rs) [c]
  | eps : Lang .eps []
  | seq {a b w1 w2} : Lang a w1 → Lang b w2 → Lang (.seq a b) (w1 ++ w2)
  | altL {a b w} : Lang a w → Lang (.alt a b) w
  | altR {a b w} : Lang b w → Lang (.alt a b) w
  | grp {i r w} : Lang r w → Lang (.grp i r) w
  | repStop {mx g r} : Lang (.rep 0 mx g r) []
  | repMore {mn mx g r w1 w2} : mx ≠ some 0 → Lang r w1 → (mn = 0 → w1 ≠ []) →
      Lang (.rep (mn - 1) (mx.map (· - 1)) g r) w2 → Lang (.rep mn mx g r) (w1 ++ w2)

/-- no look-around and no anchors inside -/
def Plain : Re → Bool
  | .chr _ => true
  | .eps => true
  | .fail => true
  | .bol => false
  | .eol => false
  | .seq a b => Plain a && Plain b
  | .alt a b => Plain a && Plain b
  | .rep _ _ _ r => Plain r
  | .grp _ r => Plain r
  | .look _ _ _ _ => false

/-- the zipper after the word `w` -/
def after (z : Z) (w rest : List Char) : Z := ⟨w.reverse ++ z.left, rest⟩

theorem after_after (z : Z) (w1 w2 r1 r2 : List Char) : after (after z w1 r1) w2 r2 = after z (w1 ++ w2) r2 := by
  simp [after]

theorem m_sound (fuel : Nat) : ∀ (r : Re) (k : K) (z : Z) (cs : Caps) (res : Z × Caps), Plain r = true →
    m fuel r k z cs = .ok res →
    ∃ w rest cs', Lang r w ∧ z.right = w ++ rest ∧ k (after z w rest) cs' = .ok res := by
  induction fuel with
  | zero => intro r k z cs res _ h; simp [m] at h
  | succ f ih =>
    intro r k z cs res hp h
    cases r with
    | chr rs =>
      simp only [m] at h
      split at h
      · simp at h
      · next c rest hr =>
        split at h
        · next hin => exact ⟨[c], rest, cs, .chr hin, by simp [hr], by simpa [after] using h⟩
        · simp at h
    | eps => exact ⟨[], z.right, cs, .eps, by simp, by simpa [m, after] using h⟩
    | fail => simp [m] at h
    | bol => simp [Plain] at hp
    | eol => simp [Plain] at hp
    | look _ _ _ _ => simp [Plain] at hp
    | seq a b =>
      simp only [Plain, Bool.and_eq_true] at hp
      simp only [m] at h
      obtain ⟨w1, r1, cs1, l1, e1, hk1⟩ := ih a _ z cs res hp.1 h
      obtain ⟨w2, r2, cs2, l2, e2, hk2⟩ := ih b k _ cs1 res hp.2 hk1
      simp only [after] at e2
      refine ⟨w1 ++ w2, r2, cs2, .seq l1 l2, by rw [e1, e2, List.append_assoc], ?_⟩
      rw [← after_after z w1 w2 r1 r2]; exact hk2
    | alt a b =>
      simp only [Plain, Bool.and_eq_true] at hp
      simp only [m] at h
      rcases orElse_ok h with h1 | ⟨_, h2⟩
      · obtain ⟨w, r, cs', l, e, hk⟩ := ih a k z cs res hp.1 h1
        exact ⟨w, r, cs', .altL l, e, hk⟩
      · obtain ⟨w, r, cs', l, e, hk⟩ := ih b k z cs res hp.2 h2
        exact ⟨w, r, cs', .altR l, e, hk⟩
    | grp idx r =>
      simp only [Plain] at hp
      simp only [m] at h
      obtain ⟨w, rest, cs', l, e, hk⟩ := ih r _ z cs res hp h
      exact ⟨w, rest, _, .grp l, e, hk⟩
    | rep mn mx greedy r =>
      simp only [Plain] at hp
      simp only [m] at h
      have hstop : ∀ res, (if mn == 0 then k z cs else Res.none) = .ok res →
          ∃ w rest cs', Lang (.rep mn mx greedy r) w ∧ z.right = w ++ rest ∧ k (after z w rest) cs' = .ok res := by
        intro res hs
        split at hs
        · next h0 =>
          have : mn = 0 := by simpa using h0
          subst this
          exact ⟨[], z.right, cs, .repStop, by simp, by simpa [after] using hs⟩
        · simp at hs
      have hmore : ∀ res, (if mx == some 0 then Res.none else
            m f r (fun z' cs' =>
              if mn == 0 && z'.right.length == z.right.length then Res.none
              else m f (.rep (mn - 1) (mx.map (· - 1)) greedy r) k z' cs') z cs) = .ok res →
          ∃ w rest cs', Lang (.rep mn mx greedy r) w ∧ z.right = w ++ rest ∧ k (after z w rest) cs' = .ok res := by
        intro res hs
        split at hs
        · simp at hs
        · next hmx =>
          obtain ⟨w1, r1, cs1, l1, e1, hk1⟩ := ih r _ z cs res hp hs
          split at hk1
          · simp at hk1
          · next hg =>
            obtain ⟨w2, r2, cs2, l2, e2, hk2⟩ := ih (.rep (mn - 1) (mx.map (· - 1)) greedy r) k _ cs1 res (by simpa [Plain] using hp) hk1
            simp only [after] at e2
            refine ⟨w1 ++ w2, r2, cs2, ?_, by rw [e1, e2, List.append_assoc], ?_⟩
            · refine .repMore (by simpa using hmx) l1 ?_ l2
              intro h0 hw
              subst hw
              apply hg
              simp [h0, after, e1]
            · rw [← after_after z w1 w2 r1 r2]; exact hk2
      split at h
      · rcases orElse_ok h with h1 | ⟨_, h2⟩
        · exact hmore _ h1
        · exact hstop _ h2
      · rcases orElse_ok h with h1 | ⟨_, h2⟩
        · exact hstop _ h1
        · exact hmore _ h2

theorem orElse_ne_none_left {α} {r : Res α} {f : Unit → Res α} (h : r ≠ .none) : r.orElse f ≠ .none := by
  cases r with
  | none => exact absurd rfl h
  | ok a => simp [Res.orElse]
  | oof => simp [Res.orElse]

theorem orElse_ne_none_right {α} {r : Res α} {f : Unit → Res α} (h : f () ≠ .none) : r.orElse f ≠ .none := by
  cases r with
  | none => simpa [Res.orElse] using h
  | ok a => simp [Res.orElse]
  | oof => simp [Res.orElse]

theorem m_complete {r : Re} {w : List Char} (hl : Lang r w) :
    ∀ (fuel : Nat) (k : K) (z : Z) (cs : Caps) (rest : List Char), z.right = w ++ rest →
      (∀ cs', k (after z w rest) cs' ≠ .none) → m fuel r k z cs ≠ .none := by
  induction hl with
  | @chr rs c hin =>
    intro fuel k z cs rest hz hk
    cases fuel with
    | zero => simp [m]
    | succ f =>
      have hz' : z.right = c :: rest := by simpa using hz
      simp only [m, hz', hin, if_true]
      have := hk cs
      simpa [after] using this
  | eps =>
    intro fuel k z cs rest hz hk
    cases fuel with
    | zero => simp [m]
    | succ f =>
      simp only [m]
      have := hk cs
      have hz' : z.right = rest := by simpa using hz
      simpa [after, ← hz'] using this
  | @seq a b w1 w2 _ _ iha ihb =>
    intro fuel k z cs rest hz hk
    cases fuel with
    | zero => simp [m]
    | succ f =>
      simp only [m]
      apply iha f _ z cs (w2 ++ rest) (by rw [hz, List.append_assoc])
      intro cs'
      apply ihb f k _ cs' rest rfl
      intro cs''
      rw [after_after]
      exact hk cs''
  | altL _ ih =>
    intro fuel k z cs rest hz hk
    cases fuel with
    | zero => simp [m]
    | succ f =>
      simp only [m]
      exact orElse_ne_none_left (ih f k z cs rest hz hk)
  | altR _ ih =>
    intro fuel k z cs rest hz hk
    cases fuel with
    | zero => simp [m]
    | succ f =>
      simp only [m]
      exact orElse_ne_none_right (ih f k z cs rest hz hk)
  | grp _ ih =>
    intro fuel k z cs rest hz hk
    cases fuel with
    | zero => simp [m]
    | succ f =>
      simp only [m]
      exact ih f _ z cs rest hz (fun cs' => hk _)
  | @repStop mx g r =>
    intro fuel k z cs rest hz hk
    cases fuel with
    | zero => simp [m]
    | succ f =>
      have hz' : z.right = rest := by simpa using hz
      have hstop : k z cs ≠ .none := by
        have := hk cs
        simpa [after, ← hz'] using this
      simp only [m]
      split
      · exact orElse_ne_none_right (by simpa using hstop)
      · exact orElse_ne_none_left (by simpa using hstop)
  | @repMore mn mx g r w1 w2 hmx _ hne _ ih1 ih2 =>
    intro fuel k z cs rest hz hk
    cases fuel with
    | zero => simp [m]
    | succ f =>
      have hmx' : (mx == some 0) = false := by simpa using hmx
      have hmore : (if mx == some 0 then Res.none else
            m f r (fun z' cs' =>
              if mn == 0 && z'.right.length == z.right.length then Res.none
              else m f (.rep (mn - 1) (mx.map (· - 1)) g r) k z' cs') z cs) ≠ .none := by
        rw [hmx']
        simp only [Bool.false_eq_true, if_false]
        apply ih1 f _ z cs (w2 ++ rest) (by rw [hz, List.append_assoc])
        intro cs'
        have hguard : (mn == 0 && (after z w1 (w2 ++ rest)).right.length == z.right.length) = false := by
          by_cases h0 : mn = 0
          · have := hne h0
            have hl : 0 < w1.length := List.length_pos_iff.mpr this
            simp [h0, after, hz]; omega
          · simp [h0]
        rw [hguard]
        simp only [Bool.false_eq_true, if_false]
        apply ih2 f k _ cs' rest rfl
        intro cs''
        rw [after_after]
        exact hk cs''
      simp only [m]
      split
      · exact orElse_ne_none_left hmore
      · exact orElse_ne_none_right hmore

end NoSurvival
end Netconan
