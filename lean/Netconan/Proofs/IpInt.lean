import Netconan.Proofs.IpMemo
/-! The integer interface: `"{:0Lb}".format(n)` and `int(s, 2)`; histories of requests. -/
namespace Netconan
namespace IpCore
open Spec

theorem toBitsW_length (w n : Nat) : (toBitsW w n).length = w := by
  induction w generalizing n with
  | zero => rfl
  | succ w ih => simp [toBitsW, ih]

theorem ofBits_snoc (b : Bits) (x : Bool) : ofBits (b ++ [x]) = 2 * ofBits b + x.toNat := by
  simp [ofBits, List.foldl_append]

theorem ofBits_nil : ofBits [] = 0 := rfl

theorem ofBits_toBitsW (w n : Nat) : ofBits (toBitsW w n) = n % 2 ^ w := by
  induction w generalizing n with
  | zero => simp [toBitsW, ofBits_nil, Nat.mod_one]
  | succ w ih =>
    simp only [toBitsW, ofBits_snoc, ih]
    have h2 : (n % 2 == 1).toNat = n % 2 := by
      rcases Nat.mod_two_eq_zero_or_one n with h | h <;> simp [h]
    rw [h2, Nat.pow_succ, Nat.mul_comm (2 ^ w) 2, Nat.mod_mul]
    omega

theorem ofBits_lt (b : Bits) : ofBits b < 2 ^ b.length := by
  induction b using snocInd with
  | nil => simp [ofBits_nil]
  | snoc b x ih =>
    rw [ofBits_snoc]
    simp only [List.length_append, List.length_cons, List.length_nil, Nat.pow_succ]
    cases x <;> simp <;> omega

theorem toBitsW_ofBits (b : Bits) : toBitsW b.length (ofBits b) = b := by
  induction b using snocInd with
  | nil => rfl
  | snoc b x ih =>
    simp only [List.length_append, List.length_cons, List.length_nil, toBitsW, ofBits_snoc]
    have h1 : (2 * ofBits b + x.toNat) / 2 = ofBits b := by cases x <;> simp <;> omega
    have h2 : ((2 * ofBits b + x.toNat) % 2 == 1) = x := by cases x <;> simp <;> omega
    rw [h1, h2, ih]

theorem fmt_of_lt {L n : Nat} (hL : 0 < L) (hn : n < 2 ^ L) : fmt L n = toBitsW L n := by
  unfold fmt
  have : n.log2 + 1 ≤ L := by
    by_cases h0 : n = 0
    · subst h0; simp [Nat.log2_zero]; omega
    · have := (Nat.log2_lt h0).mpr hn; omega
  rw [Nat.max_eq_left this]

theorem fmt_length {L n : Nat} (hL : 0 < L) (hn : n < 2 ^ L) : (fmt L n).length = L := by
  rw [fmt_of_lt hL hn, toBitsW_length]

theorem ofBits_fmt {L n : Nat} (hL : 0 < L) (hn : n < 2 ^ L) : ofBits (fmt L n) = n := by
  rw [fmt_of_lt hL hn, ofBits_toBitsW, Nat.mod_eq_of_lt hn]

theorem fmt_ofBits {L : Nat} (hL : 0 < L) (b : Bits) (hb : b.length = L) : fmt L (ofBits b) = b := by
  have := ofBits_lt b
  rw [hb] at this
  rw [fmt_of_lt hL this, ← hb, toBitsW_ofBits]

/-! ### the pure map on integers -/

variable (h : Bits → Bool) (pins : List Bits) (L B : Nat)

/-- the pure image of an address given as an integer -/
def FN (n : Nat) : Nat := ofBits (Ffull h pins L B (fmt L n))
def GN (n : Nat) : Nat := ofBits (Gfull h pins L B (fmt L n))

/-- the cache-free reference answer to a request -/
def answer : Op → Nat
  | .anon n => FN h pins L B n
  | .deanon n => GN h pins L B n

def Op.arg : Op → Nat
  | .anon n => n
  | .deanon n => n

theorem step_spec (hL : 0 < L) (op : Op) (hop : op.arg < 2 ^ L) :
    ∀ c, Inv h pins L B c →
      ∃ c', step h L B c op = .ok (answer h pins L B op, c') ∧ Inv h pins L B c' ∧ (∀ e ∈ c, e ∈ c') := by
  intro c hI
  cases op with
  | anon n =>
    obtain ⟨c', h1, hI', hsub, _⟩ := anonymizeM_spec h pins L B (fmt L n) (fmt_length hL hop) c hI
    exact ⟨c', by simp [step, h1, answer, FN], hI', hsub⟩
  | deanon n =>
    obtain ⟨c', h1, hI', hsub⟩ := deanonymizeM_spec h pins L B (fmt L n) (fmt_length hL hop) c hI
    exact ⟨c', by simp [step, h1, answer, GN], hI', hsub⟩

/-- **Main refinement theorem.**  Every finite history of anonymize/undo requests, from any
invariant memo, answers every request with the cache-free value, never raises, and ends in
an invariant memo. -/
theorem run_spec (hL : 0 < L) (ops : List Op) (hops : ∀ op ∈ ops, op.arg < 2 ^ L) :
    ∀ c, Inv h pins L B c →
      ∃ c', run h L B c ops = .ok (ops.map (answer h pins L B), c') ∧ Inv h pins L B c'
        ∧ (∀ e ∈ c, e ∈ c') := by
  induction ops with
  | nil => intro c hI; exact ⟨c, rfl, hI, fun e he => he⟩
  | cons op ops ih =>
    intro c hI
    obtain ⟨c1, h1, hI1, hsub1⟩ := step_spec h pins L B hL op (hops op (by simp)) c hI
    obtain ⟨c2, h2, hI2, hsub2⟩ := ih (fun o ho => hops o (by simp [ho])) c1 hI1
    exact ⟨c2, by simp [run, h1, h2], hI2, fun e he => hsub2 e (hsub1 e he)⟩

/-- an anonymized address is in the memo afterwards, with its pure image -/
theorem step_anon_mem (hL : 0 < L) (n : Nat) (hn : n < 2 ^ L) :
    ∀ c, Inv h pins L B c → ∀ r c', step h L B c (.anon n) = .ok (r, c') →
      (fmt L n, Ffull h pins L B (fmt L n)) ∈ c' := by
  intro c hI r c' hs
  obtain ⟨c1, h1, _, _, hin⟩ := anonymizeM_spec h pins L B (fmt L n) (fmt_length hL hn) c hI
  simp [step, h1] at hs
  rw [← hs.2]; exact hin

/-- every address anonymized anywhere in a history is in the final memo -/
theorem run_anon_mem (hL : 0 < L) (ops : List Op) (hops : ∀ op ∈ ops, op.arg < 2 ^ L) :
    ∀ c, Inv h pins L B c → ∀ rs c', run h L B c ops = .ok (rs, c') →
      ∀ n, Op.anon n ∈ ops → (fmt L n, Ffull h pins L B (fmt L n)) ∈ c' := by
  induction ops with
  | nil => intro c _ rs c' _ n hn; simp at hn
  | cons op ops ih =>
    intro c hI rs c' hr n hn
    obtain ⟨c1, h1, hI1, _⟩ := step_spec h pins L B hL op (hops op (by simp)) c hI
    obtain ⟨c2, h2, _, hsub2⟩ := run_spec h pins L B hL ops (fun o ho => hops o (by simp [ho])) c1 hI1
    have hc2 : c' = c2 := by simp [run, h1, h2] at hr; exact hr.2.symm
    subst hc2
    simp at hn
    rcases hn with rfl | hn
    · exact hsub2 _ (step_anon_mem h pins L B hL n (hops (.anon n) (by simp)) c hI _ _ h1)
    · exact ih (fun o ho => hops o (by simp [ho])) c1 hI1 _ _ h2 n hn

/-- the dump of an invariant memo: on the graph of the map, no original and no replacement twice -/
theorem dump_spec {c : Cache} (hI : Inv h pins L B c) :
    (∀ e ∈ dump L c, e.1.length = L ∧ e.2 = Ffull h pins L B e.1) ∧
    (dump L c).Pairwise (fun e e' => e.1 ≠ e'.1) ∧
    (dump L c).Pairwise (fun e e' => e.2 ≠ e'.2) := by
  have hk : c.Pairwise (fun e e' => e.1 ≠ e'.1) := by
    have := hI.graph.nodup
    rwa [List.Nodup, List.pairwise_map] at this
  have hv : c.Pairwise (fun e e' => e.2 ≠ e'.2) := by
    apply List.Pairwise.imp_of_mem _ hk
    intro a b ha hb hab hv
    apply hab
    apply Fb_inj h pins L B
    rw [← hI.graph.onGraph a ha, ← hI.graph.onGraph b hb, hv]
  refine ⟨?_, List.Pairwise.filter _ hk, List.Pairwise.filter _ hv⟩
  intro e he
  simp [dump] at he
  exact ⟨he.2, hI.graph.onGraph e he.1⟩

theorem FN_lt (hL : 0 < L) {n : Nat} (hn : n < 2 ^ L) : FN h pins L B n < 2 ^ L := by
  unfold FN
  have := ofBits_lt (Ffull h pins L B (fmt L n))
  rwa [Ffull_length, fmt_length hL hn] at this

theorem GN_lt (hL : 0 < L) {n : Nat} (hn : n < 2 ^ L) : GN h pins L B n < 2 ^ L := by
  unfold GN
  have := ofBits_lt (Gfull h pins L B (fmt L n))
  rwa [Gfull_length, fmt_length hL hn] at this

theorem GN_FN (hL : 0 < L) {n : Nat} (hn : n < 2 ^ L) : GN h pins L B (FN h pins L B n) = n := by
  unfold GN FN
  rw [fmt_ofBits hL _ (by rw [Ffull_length, fmt_length hL hn]), Gfull_Ffull, ofBits_fmt hL hn]

theorem FN_GN (hL : 0 < L) {n : Nat} (hn : n < 2 ^ L) : FN h pins L B (GN h pins L B n) = n := by
  unfold GN FN
  rw [fmt_ofBits hL _ (by rw [Gfull_length, fmt_length hL hn]), Ffull_Gfull, ofBits_fmt hL hn]

end IpCore
end Netconan
