import Netconan.Proofs.Ipv4Lang
/-!
# Every word of the IPv4 core language parses: `parseV4` succeeds on it with the value of its parts
-/
namespace Netconan
namespace NoSurvival
open Regex Secrets IpText

theorem isAsciiDigit_of_isDig {c : Char} (h : isDig c = true) : isAsciiDigit c = true := by
  simp only [isDig, Bool.and_eq_true, decide_eq_true_eq] at h
  unfold isAsciiDigit
  have h0 : ('0' : Char).toNat = 48 := by decide
  have h9 : ('9' : Char).toNat = 57 := by decide
  have a : '0' ≤ c := by show ('0' : Char).toNat ≤ c.toNat; omega
  have b : c ≤ '9' := by show c.toNat ≤ ('9' : Char).toNat; omega
  simp [a, b]

theorem splitOn_go_part (p : List Char) (hp : ∀ c ∈ p, (c == '.') = false) :
    ∀ (rest cur : List Char), splitOn.go '.' (p ++ rest) cur = splitOn.go '.' rest (p.reverse ++ cur) := by
  induction p with
  | nil => intro rest cur; rfl
  | cons c p ih =>
    intro rest cur
    have hc := hp c (by simp)
    simp only [List.cons_append, splitOn.go, hc, Bool.false_eq_true, if_false]
    rw [ih (fun d hd => hp d (by simp [hd]))]
    simp

theorem dig_ne_dot {c : Char} (h : isDig c = true) : (c == '.') = false := by
  simp only [isDig, Bool.and_eq_true, decide_eq_true_eq] at h
  cases hc : (c == '.') with
  | false => rfl
  | true =>
    have : c = '.' := by simpa using hc
    rw [this] at h
    have : ('.' : Char).toNat = 46 := by decide
    omega

theorem splitOn_quad (p1 p2 p3 p4 : List Char) (h1 : p1.all isDig = true) (h2 : p2.all isDig = true)
    (h3 : p3.all isDig = true) (h4 : p4.all isDig = true) :
    splitOn '.' (p1 ++ '.' :: (p2 ++ '.' :: (p3 ++ '.' :: p4))) = [p1, p2, p3, p4] := by
  have nd : ∀ (p : List Char), p.all isDig = true → ∀ c ∈ p, (c == '.') = false :=
    fun p hp c hc => dig_ne_dot (List.all_eq_true.mp hp c hc)
  unfold splitOn
  rw [splitOn_go_part p1 (nd p1 h1)]
  simp only [splitOn.go, beq_self_eq_true, if_true, List.append_nil, List.reverse_reverse]
  rw [splitOn_go_part p2 (nd p2 h2)]
  simp only [splitOn.go, beq_self_eq_true, if_true, List.append_nil, List.reverse_reverse]
  rw [splitOn_go_part p3 (nd p3 h3)]
  simp only [splitOn.go, beq_self_eq_true, if_true, List.append_nil, List.reverse_reverse]
  have := splitOn_go_part p4 (nd p4 h4) [] []
  simp only [List.append_nil] at this
  rw [this]
  simp [splitOn.go]

/-- a part of value ≤ 255 has at most three digits after its leading zeros -/
theorem canonical_length (q : List Char) (hd : q.all isDig = true) (h0 : ∀ c, q.head? = some c → c.toNat ≠ 48)
    (hv : digitsVal q ≤ 255) : q.length ≤ 3 := by
  match q, hd, h0, hv with
  | [], _, _, _ => simp
  | [_], _, _, _ => simp
  | [_, _], _, _, _ => simp
  | [_, _, _], _, _, _ => simp
  | a :: b :: c :: d :: rest, hd, h0, hv =>
    exfalso
    simp only [List.all_cons, Bool.and_eq_true] at hd
    have ha := hd.1
    have ha0 := h0 a rfl
    simp only [isDig, Bool.and_eq_true, decide_eq_true_eq] at ha
    rw [digitsVal_cons] at hv
    have hp : 1000 ≤ 10 ^ (b :: c :: d :: rest).length := by
      have : (b :: c :: d :: rest).length = rest.length + 3 := by simp
      rw [this, Nat.pow_add]
      have : 1 ≤ 10 ^ rest.length := Nat.pow_pos (by decide)
      omega
    have h1 : 1 ≤ a.toNat - 48 := by omega
    have : 1000 ≤ (a.toNat - 48) * 10 ^ (b :: c :: d :: rest).length :=
      Nat.le_trans hp (Nat.le_mul_of_pos_left _ h1)
    omega

theorem dropWhile_zero_eq (p : List Char) (hd : p.all isDig = true) :
    p.dropWhile (· == '0') = p.dropWhile (fun c => c.toNat == 48) := by
  induction p with
  | nil => rfl
  | cons c p ih =>
    simp only [List.all_cons, Bool.and_eq_true] at hd
    have h0 : ('0' : Char).toNat = 48 := by decide
    have e : (c == '0') = (c.toNat == 48) := by
      cases h : (c == '0') with
      | true => have : c = '0' := by simpa using h
                rw [this, h0]; rfl
      | false =>
        cases h2 : (c.toNat == 48) with
        | false => rfl
        | true =>
          have : c.toNat = ('0' : Char).toNat := by rw [h0]; simpa using h2
          have := Char.toNat_inj.mp this
          simp [this] at h
    simp only [List.dropWhile_cons, e]
    split
    · exact ih hd.2
    · rfl

/-- `_parse_octet` accepts every part of the pattern and returns its decimal value -/
theorem parseOctet_part (p : List Char) (h : Part p) : parseOctet p = some (digitsVal p) := by
  obtain ⟨hne, hd, hv⟩ := h
  unfold parseOctet
  have hemp : p.isEmpty = false := by cases p <;> simp_all
  have hall : p.all isAsciiDigit = true := by
    rw [List.all_eq_true]; intro c hc; exact isAsciiDigit_of_isDig (List.all_eq_true.mp hd c hc)
  simp only [hemp, hall, Bool.not_true, Bool.or_self, Bool.false_eq_true, if_false]
  rw [dropWhile_zero_eq p hd]
  have hsplit := List.takeWhile_append_dropWhile (p := fun c => c.toNat == 48) (l := p)
  have hzs : (p.takeWhile fun c => c.toNat == 48).all (inRanges [(48, 48)]) = true := by
    rw [List.all_eq_true]
    intro c hc
    have := mem_takeWhile_p' _ p c hc
    rw [inR1]
    have : c.toNat = 48 := by simpa using this
    omega
  have hval : digitsVal (p.dropWhile fun c => c.toNat == 48) = digitsVal p := by
    have := dv_zeros _ (p.dropWhile fun c => c.toNat == 48) hzs
    rw [hsplit] at this; exact this.symm
  by_cases hq : p.dropWhile (fun c => c.toNat == 48) = []
  · -- all zeros: the value is 0
    simp only [hq, List.isEmpty_nil, if_true]
    have h0 : digitsVal p = 0 := by rw [← hval, hq]; rfl
    have : decVal ['0'] = 0 := by decide
    simp [this, h0]
  · have hqe : (p.dropWhile fun c => c.toNat == 48).isEmpty = false := by
      cases hx : p.dropWhile (fun c => c.toNat == 48) with
      | nil => exact absurd hx hq
      | cons _ _ => rfl
    simp only [hqe, Bool.false_eq_true, if_false]
    have hlen : (p.dropWhile fun c => c.toNat == 48).length ≤ 3 := by
      apply canonical_length
      · rw [List.all_eq_true]; intro c hc
        exact List.all_eq_true.mp hd c ((List.dropWhile_sublist _).subset hc)
      · intro c hc
        have := List.head?_dropWhile_not (fun c => c.toNat == 48) p
        rw [hc] at this
        simpa using this
      · rw [hval]; exact hv
    have hnot : ¬ (p.dropWhile fun c => c.toNat == 48).length > 3 := by omega
    simp only [hnot, if_false]
    have : decVal (p.dropWhile fun c => c.toNat == 48) = digitsVal p := hval
    simp only [this, hv, if_true]

/-- **Every word of the IPv4 core language parses** (`IPv4Address` after the leading zeros are dropped), to the
number its four parts spell – so a matched standalone token is never "left alone as unparsable". -/
theorem parseV4_of_lang (w : List Char) (h : Lang core4 w) :
    ∃ p1 p2 p3 p4, w = p1 ++ '.' :: (p2 ++ '.' :: (p3 ++ '.' :: p4)) ∧
      parseV4 w = .ok (((digitsVal p1 * 256 + digitsVal p2) * 256 + digitsVal p3) * 256 + digitsVal p4) ∧
      digitsVal p1 ≤ 255 ∧ digitsVal p2 ≤ 255 ∧ digitsVal p3 ≤ 255 ∧ digitsVal p4 ≤ 255 := by
  obtain ⟨p1, p2, p3, p4, h1, h2, h3, h4, rfl⟩ := (lang_core4_iff w).mp h
  refine ⟨p1, p2, p3, p4, rfl, ?_, h1.2.2, h2.2.2, h3.2.2, h4.2.2⟩
  unfold parseV4
  rw [splitOn_quad p1 p2 p3 p4 h1.2.1 h2.2.1 h3.2.1 h4.2.1]
  simp only [List.map_cons, List.map_nil, parseOctet_part p1 h1, parseOctet_part p2 h2, parseOctet_part p3 h3, parseOctet_part p4 h4]

end NoSurvival
end Netconan

namespace Netconan
namespace NoSurvival
open Regex Secrets IpText

/-- **What a matched IPv4 token is replaced by**: it always parses; if it is netmask-shaped or a member of a
preserved network it is written back as it stands, otherwise the canonical dotted quad of the image of its
value under the address map (`Ffull`, or `Gfull` when undoing) is written. -/
theorem anonMatch_of_lang (c : IpCfg) (hf : c.fam6 = false) (undo : Bool) (w : List Char) (h : Lang core4 w) :
    ∃ n, parseV4 w = .ok n ∧ n < 2 ^ 32 ∧
      anonMatch c undo w =
        if Mask.shouldAnonymize c.nets n then
          showV4 (IpCore.ofBits (if undo then Spec.Gfull c.h c.pins c.L c.B (IpCore.fmt c.L n)
                                  else Spec.Ffull c.h c.pins c.L c.B (IpCore.fmt c.L n)))
        else w := by
  obtain ⟨p1, p2, p3, p4, _, hp, b1, b2, b3, b4⟩ := parseV4_of_lang w h
  refine ⟨_, hp, by omega, ?_⟩
  unfold anonMatch
  simp only [hf, Bool.false_eq_true, if_false, hp, Bool.not_false, Bool.true_and]
  cases hs : Mask.shouldAnonymize c.nets (((digitsVal p1 * 256 + digitsVal p2) * 256 + digitsVal p3) * 256 + digitsVal p4) with
  | true => simp
  | false => simp

end NoSurvival
end Netconan
