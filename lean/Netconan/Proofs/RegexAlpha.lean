import Netconan.Proofs.RegexFrame
/-!
# Alphabet analysis of the regex engine (verified static analysis)

`Re.alpha r` over-approximates the characters a match of `r` can consume (look-around consumes
nothing).  `m_adv_alpha`: every success of the matcher advances over characters of `alpha r` only.
Evaluated by the kernel on the translated patterns it yields facts such as "a span replaced by the
IPv4 stage consists of digits and dots" without any reasoning about the individual pattern.
-/
namespace Netconan
namespace Regex

def Re.alpha : Re → List (Nat × Nat)
  | .chr rs => rs
  | .seq a b => a.alpha ++ b.alpha
  | .alt a b => a.alpha ++ b.alpha
  | .rep _ _ _ r => r.alpha
  | .grp _ r => r.alpha
  | _ => []

theorem inRanges_append (a b : List (Nat × Nat)) (c : Char) : inRanges (a ++ b) c = (inRanges a c || inRanges b c) := by
  simp [inRanges, List.any_append]

/-- `z'` is `z` advanced over characters that all satisfy `S` -/
def AdvIn (S : Char → Bool) (z z' : Z) : Prop :=
  ∃ w : List Char, (∀ c ∈ w, S c = true) ∧ z'.left = w.reverse ++ z.left ∧ z.right = w ++ z'.right

theorem AdvIn.refl (S) (z : Z) : AdvIn S z z := ⟨[], by simp, by simp, by simp⟩
theorem AdvIn.trans {S} {a b c : Z} : AdvIn S a b → AdvIn S b c → AdvIn S a c := by
  rintro ⟨w1, s1, h1, h2⟩ ⟨w2, s2, h3, h4⟩
  refine ⟨w1 ++ w2, ?_, by simp [h3, h1], by simp [h2, h4]⟩
  intro c hc
  rcases List.mem_append.mp hc with h | h
  · exact s1 c h
  · exact s2 c h
theorem AdvIn.mono {S T : Char → Bool} (hST : ∀ c, S c = true → T c = true) {a b : Z} : AdvIn S a b → AdvIn T a b := by
  rintro ⟨w, s, h1, h2⟩; exact ⟨w, fun c hc => hST c (s c hc), h1, h2⟩
theorem AdvIn.toAdv {S} {a b : Z} : AdvIn S a b → Adv a b := by
  rintro ⟨w, _, h1, h2⟩; exact ⟨w, h1, h2⟩

theorem m_adv_alpha (fuel : Nat) (r : Re) (k : K) (z : Z) (cs : Caps) (res : Z × Caps) :
    m fuel r k z cs = .ok res → ∃ z' cs', AdvIn (inRanges r.alpha) z z' ∧ k z' cs' = .ok res := by
  induction fuel generalizing r k z cs res with
  | zero => intro h; simp [m] at h
  | succ f ih =>
    intro h
    cases r with
    | chr rs =>
      simp only [m] at h
      split at h
      · simp at h
      · next c rest hr =>
        split at h
        · next hin => exact ⟨_, cs, ⟨[c], by simpa [Re.alpha] using hin, by simp, by simp [hr]⟩, h⟩
        · simp at h
    | eps => exact ⟨z, cs, AdvIn.refl _ z, by simpa [m] using h⟩
    | fail => simp [m] at h
    | bol =>
      simp only [m] at h
      split at h
      · exact ⟨z, cs, AdvIn.refl _ z, h⟩
      · simp at h
    | eol =>
      simp only [m] at h
      split at h
      · exact ⟨z, cs, AdvIn.refl _ z, h⟩
      · simp at h
    | seq a b =>
      simp only [m] at h
      obtain ⟨z1, cs1, h1, hk1⟩ := ih _ _ _ _ _ h
      obtain ⟨z2, cs2, h2, hk2⟩ := ih _ _ _ _ _ hk1
      refine ⟨z2, cs2, AdvIn.trans (AdvIn.mono ?_ h1) (AdvIn.mono ?_ h2), hk2⟩
      · intro c hc; simp [Re.alpha, inRanges_append, hc]
      · intro c hc; simp [Re.alpha, inRanges_append, hc]
    | alt a b =>
      simp only [m] at h
      rcases orElse_ok h with h1 | ⟨_, h2⟩
      · obtain ⟨z1, cs1, ha, hk⟩ := ih _ _ _ _ _ h1
        exact ⟨z1, cs1, AdvIn.mono (by intro c hc; simp [Re.alpha, inRanges_append, hc]) ha, hk⟩
      · obtain ⟨z1, cs1, ha, hk⟩ := ih _ _ _ _ _ h2
        exact ⟨z1, cs1, AdvIn.mono (by intro c hc; simp [Re.alpha, inRanges_append, hc]) ha, hk⟩
    | grp idx r =>
      simp only [m] at h
      obtain ⟨z1, cs1, h1, hk1⟩ := ih _ _ _ _ _ h
      exact ⟨z1, _, h1, hk1⟩
    | look ahead neg width r =>
      simp only [m] at h
      split at h
      · split at h
        · exact ⟨z, cs, AdvIn.refl _ z, h⟩
        · simp at h
      · split at h
        · exact ⟨z, _, AdvIn.refl _ z, h⟩
        · exact ⟨z, cs, AdvIn.refl _ z, h⟩
        · simp at h
        · simp at h
    | rep mn mx greedy r =>
      simp only [m] at h
      have hstop : ∀ res, (if mn == 0 then k z cs else Res.none) = .ok res →
          ∃ z' cs', AdvIn (inRanges r.alpha) z z' ∧ k z' cs' = .ok res := by
        intro res hs
        split at hs
        · exact ⟨z, cs, AdvIn.refl _ z, hs⟩
        · simp at hs
      have hmore : ∀ res, (if mx == some 0 then Res.none else
            m f r (fun z' cs' =>
              if mn == 0 && z'.right.length == z.right.length then Res.none
              else m f (.rep (mn - 1) (mx.map (· - 1)) greedy r) k z' cs') z cs) = .ok res →
            ∃ z' cs', AdvIn (inRanges r.alpha) z z' ∧ k z' cs' = .ok res := by
        intro res hs
        split at hs
        · simp at hs
        · obtain ⟨z1, cs1, h1, hk1⟩ := ih _ _ _ _ _ hs
          split at hk1
          · simp at hk1
          · obtain ⟨z2, cs2, h2, hk2⟩ := ih _ _ _ _ _ hk1
            exact ⟨z2, cs2, AdvIn.trans h1 h2, hk2⟩
      split at h
      · rcases orElse_ok h with h1 | ⟨_, h2⟩
        · exact hmore _ h1
        · exact hstop _ h2
      · rcases orElse_ok h with h1 | ⟨_, h2⟩
        · exact hstop _ h1
        · exact hmore _ h2

/-- the text of a match consists of characters of the pattern's alphabet -/
theorem match_text_in_alpha (r : Re) (fuel : Nat) (z z' : Z) (cs : Caps) (h : matchAt r fuel z = .ok (z', cs)) :
    ∀ c ∈ (z'.left.take (z'.left.length - z.left.length)).reverse, inRanges r.alpha c = true := by
  obtain ⟨z1, cs1, ⟨w, hw, h1, h2⟩, hk⟩ := m_adv_alpha fuel r _ z [] (z', cs) h
  simp at hk
  rw [← hk.1, h1]
  intro c hc
  apply hw
  simpa using hc

end Regex
end Netconan
