import Netconan.Proofs.Total
import Netconan.Pinned.Patterns
/-!
# The six format patterns classify every decryptable `$9$` value as `$9$`

Discharges the hypothesis `ClassifiesJuniper` of the totality theorem for the pinned format patterns,
by evaluating the engine symbolically: the `$9$` pattern `^\$9\$[\S]+$` accepts `$9$` followed by any
non-empty run of non-space characters (greedy repeat consumes the run – induction over it), and each
of the five patterns tried after it fails on the first or second character of a string that starts
with `$9`.
-/
namespace Netconan
namespace Lines
open Regex Secrets Generated

theorem m_rep_succ (f mn : Nat) (mx : Option Nat) (g : Bool) (r : Re) (k : K) (z : Z) (cs : Caps) :
    m (f + 1) (.rep mn mx g r) k z cs =
      (if g then
        ((if mx == some 0 then Res.none else
          m f r (fun z' cs' =>
            if mn == 0 && z'.right.length == z.right.length then Res.none
            else m f (.rep (mn - 1) (mx.map (· - 1)) g r) k z' cs') z cs).orElse
          fun _ => if mn == 0 then k z cs else Res.none)
      else
        ((if mn == 0 then k z cs else Res.none).orElse fun _ =>
          if mx == some 0 then Res.none else
          m f r (fun z' cs' =>
            if mn == 0 && z'.right.length == z.right.length then Res.none
            else m f (.rep (mn - 1) (mx.map (· - 1)) g r) k z' cs') z cs)) := rfl

theorem m_chr_cons (f : Nat) (rs : List (Nat × Nat)) (k : K) (l : List Char) (c : Char) (rest : List Char) (cs : Caps) :
    m (f + 1) (.chr rs) k ⟨l, c :: rest⟩ cs = if inRanges rs c then k ⟨c :: l, rest⟩ cs else .none := rfl

theorem m_seq_succ (f : Nat) (a b : Re) (k : K) (z : Z) (cs : Caps) :
    m (f + 1) (.seq a b) k z cs = m f a (m f b k) z cs := rfl
theorem m_bol_succ (f : Nat) (k : K) (z : Z) (cs : Caps) :
    m (f + 1) .bol k z cs = if z.left.isEmpty then k z cs else .none := rfl
theorem m_eol_succ (f : Nat) (k : K) (z : Z) (cs : Caps) :
    m (f + 1) .eol k z cs = if z.right.isEmpty || z.right == ['\n'] then k z cs else .none := rfl

theorem m_chr_nil (f : Nat) (rs : List (Nat × Nat)) (k : K) (l : List Char) (cs : Caps) :
    m (f + 1) (.chr rs) k ⟨l, []⟩ cs = .none := rfl

/-- a greedy unbounded repeat of a one-character class consumes a whole run of such characters and
then continues; `mn` iterations are mandatory -/
theorem rep_consume_all (S : List (Nat × Nat)) (body : List Char) (hall : ∀ c ∈ body, inRanges S c = true) :
    ∀ (mn fuel : Nat) (left : List Char) (cs : Caps) (k : K) (res : Z × Caps),
      mn ≤ body.length → body.length + 2 ≤ fuel → k ⟨body.reverse ++ left, []⟩ cs = .ok res →
      m fuel (.rep mn none true (.chr S)) k ⟨left, body⟩ cs = .ok res := by
  induction body with
  | nil =>
    intro mn fuel left cs k res hmn hf hk
    obtain ⟨f, rfl⟩ : ∃ f, fuel = f + 2 := ⟨fuel - 2, by simp at hf; omega⟩
    have : mn = 0 := by simpa using hmn
    subst this
    rw [m_rep_succ, m_chr_nil]
    simpa [Res.orElse] using hk
  | cons c rest ih =>
    intro mn fuel left cs k res hmn hf hk
    obtain ⟨f, rfl⟩ : ∃ f, fuel = f + 2 := ⟨fuel - 2, by simp at hf; omega⟩
    have hc : inRanges S c = true := hall c (by simp)
    have hrec := ih (fun d hd => hall d (by simp [hd])) (mn - 1) (f + 1) (c :: left) cs k res
      (by simp at hmn; omega) (by simp at hf ⊢; omega) (by simpa using hk)
    rw [m_rep_succ, m_chr_cons]
    have hlen : (rest.length == (c :: rest).length) = false := by simp
    simp only [hc, if_true, hlen, Bool.and_false, Bool.false_eq_true, if_false]
    have hne : ((none : Option Nat) == some 0) = false := rfl
    simp only [hne, Bool.false_eq_true, if_false, Option.map_none]
    rw [hrec]
    rfl

theorem fuelFor_ge (r : Re) (n : Nat) : n + 10 ≤ fuelFor r n := by
  unfold fuelFor
  have : n + 2 ≤ (n + 2) * (r.size + 2) := Nat.le_mul_of_pos_right _ (by omega)
  omega

/-- every character of the `$9$` alphabet is a non-space character for the format patterns -/
theorem alphabet_not_space : junNumAlpha.all (fun c => inRanges Pinned.Patterns.cs45 c) = true := by decide +kernel

theorem p0_accepts (body : List Char) (hne : body ≠ []) (hall : ∀ c ∈ body, inRanges Pinned.Patterns.cs45 c = true) :
    reMatch (Pinned.Patterns.formatRes.getD 0 .fail) ('$' :: '9' :: '$' :: body) = true := by
  unfold reMatch matchAt
  have hf := fuelFor_ge (Pinned.Patterns.formatRes.getD 0 .fail) ('$' :: '9' :: '$' :: body).length
  have hlen : ('$' :: '9' :: '$' :: body).length = body.length + 3 := by simp
  rw [hlen] at hf ⊢
  obtain ⟨G, hG⟩ : ∃ G, fuelFor (Pinned.Patterns.formatRes.getD 0 .fail) (body.length + 3) = G + 6 :=
    ⟨fuelFor (Pinned.Patterns.formatRes.getD 0 .fail) (body.length + 3) - 6, by omega⟩
  rw [hG]
  have hGb : body.length + 2 ≤ G + 1 := by omega
  have h1 : inRanges Pinned.Patterns.cs64 '$' = true := by decide +kernel
  have h2 : inRanges Pinned.Patterns.cs71 '9' = true := by decide +kernel
  have hres : m (G + 6) (Pinned.Patterns.formatRes.getD 0 .fail) (fun z' cs' => .ok (z', cs')) ⟨[], '$' :: '9' :: '$' :: body⟩ []
      = .ok (⟨body.reverse ++ ['$', '9', '$'], []⟩, []) := by
    show m (G + 6) (.seq .bol (.seq (.chr Pinned.Patterns.cs64) (.seq (.chr Pinned.Patterns.cs71) (.seq (.chr Pinned.Patterns.cs64)
      (.seq (.rep 1 none true (.chr Pinned.Patterns.cs45)) .eol))))) _ _ _ = _
    rw [m_seq_succ, m_bol_succ]
    simp only [List.isEmpty_nil, if_true]
    rw [m_seq_succ, m_chr_cons, if_pos h1, m_seq_succ, m_chr_cons, if_pos h2, m_seq_succ, m_chr_cons, if_pos h1, m_seq_succ]
    apply rep_consume_all Pinned.Patterns.cs45 body hall 1 (G + 1)
    · cases body with
      | nil => exact absurd rfl hne
      | cons c cs => simp
    · exact hGb
    · rw [m_eol_succ]; simp
  rw [hres]

theorem first_two (r : Re) (rest : List Char) (hr : ∀ F, 5 ≤ F → m F r (fun z' cs' => .ok (z', cs')) ⟨[], '$' :: '9' :: rest⟩ [] = .none) :
    reMatch r ('$' :: '9' :: rest) = false := by
  unfold reMatch matchAt
  rw [hr _ (by have := fuelFor_ge r ('$' :: '9' :: rest).length; omega)]

theorem p1_rejects (rest : List Char) : reMatch (Pinned.Patterns.formatRes.getD 1 .fail) ('$' :: '9' :: rest) = false := by
  apply first_two
  intro F hF
  obtain ⟨G, rfl⟩ : ∃ G, F = G + 5 := ⟨F - 5, by omega⟩
  have h1 : inRanges Pinned.Patterns.cs64 '$' = true := by decide +kernel
  have h2 : inRanges Pinned.Patterns.cs57 '9' = false := by decide +kernel
  show m (G + 5) (.seq .bol (.seq (.chr Pinned.Patterns.cs64) (.seq (.chr Pinned.Patterns.cs57) _))) _ _ _ = _
  simp [m, h1, h2]

theorem p2_rejects (rest : List Char) : reMatch (Pinned.Patterns.formatRes.getD 2 .fail) ('$' :: '9' :: rest) = false := by
  apply first_two
  intro F hF
  obtain ⟨G, rfl⟩ : ∃ G, F = G + 5 := ⟨F - 5, by omega⟩
  have h1 : inRanges Pinned.Patterns.cs64 '$' = true := by decide +kernel
  have h2 : inRanges Pinned.Patterns.cs6 '9' = false := by decide +kernel
  show m (G + 5) (.seq .bol (.seq (.chr Pinned.Patterns.cs64) (.seq (.chr Pinned.Patterns.cs6) _))) _ _ _ = _
  simp [m, h1, h2]

theorem p3_rejects (rest : List Char) : reMatch (Pinned.Patterns.formatRes.getD 3 .fail) ('$' :: '9' :: rest) = false := by
  apply first_two
  intro F hF
  obtain ⟨G, rfl⟩ : ∃ G, F = G + 5 := ⟨F - 5, by omega⟩
  have h1 : inRanges Pinned.Patterns.cs12 '$' = false := by decide +kernel
  show m (G + 5) (.seq .bol (.seq (.rep 1 none true (.chr Pinned.Patterns.cs12)) .eol)) _ _ _ = _
  simp [m, h1, Res.orElse]

theorem p4_rejects (rest : List Char) : reMatch (Pinned.Patterns.formatRes.getD 4 .fail) ('$' :: '9' :: rest) = false := by
  apply first_two
  intro F hF
  obtain ⟨G, rfl⟩ : ∃ G, F = G + 5 := ⟨F - 5, by omega⟩
  have h1 : inRanges Pinned.Patterns.cs73 '$' = false := by decide +kernel
  show m (G + 5) (.seq .bol (.seq (.chr Pinned.Patterns.cs73) _)) _ _ _ = _
  simp [m, h1]

theorem p5_rejects (rest : List Char) : reMatch (Pinned.Patterns.formatRes.getD 5 .fail) ('$' :: '9' :: rest) = false := by
  apply first_two
  intro F hF
  obtain ⟨G, rfl⟩ : ∃ G, F = G + 5 := ⟨F - 5, by omega⟩
  have h1 : inRanges Pinned.Patterns.cs7 '$' = false := by decide +kernel
  show m (G + 5) (.seq .bol (.seq (.rep 1 none true (.chr Pinned.Patterns.cs7)) .eol)) _ _ _ = _
  simp [m, h1, Res.orElse]

/-- the shape of a decryptable value: `$9$` followed by at least four alphabet characters -/
theorem decrypted_shape (v d : List Char) (h : decryptedOf v = some d) :
    ∃ body, v = '$' :: '9' :: '$' :: body ∧ body ≠ [] ∧ ∀ c ∈ body, junNumAlpha.contains c = true := by
  unfold decryptedOf at h
  split at h
  · cases hd : Juniper.decrypt v with
    | error e => simp [hd] at h
    | ok p =>
      have hv : Juniper.valid v = true := by
        unfold Juniper.decrypt at hd
        by_cases hc : (v.isEmpty || !Juniper.valid v) = true
        · simp [hc] at hd
        · cases hvv : Juniper.valid v <;> simp_all
      unfold Juniper.valid at hv
      simp only [Bool.and_eq_true, decide_eq_true_eq, List.all_eq_true, beq_iff_eq] at hv
      obtain ⟨⟨h1, h2⟩, h3⟩ := hv
      have hm : junMagic = ['$', '9', '$'] := by decide
      rw [hm] at h1 h2 h3
      simp only [List.length_cons, List.length_nil] at h1 h2 h3
      refine ⟨v.drop 3, ?_, ?_, h3⟩
      · conv => lhs; rw [← List.take_append_drop 3 v, h1]
        rfl
      · intro he; rw [he] at h2; simp at h2
  · simp at h

/-- **`ClassifiesJuniper` holds for the pinned format patterns.** -/
theorem classifiesJuniper_pinned : ClassifiesJuniper Pinned.Patterns.formatRes := by
  intro v d hd _
  obtain ⟨body, rfl, hne, hall⟩ := decrypted_shape v d hd
  have hsp : ∀ c ∈ body, inRanges Pinned.Patterns.cs45 c = true := by
    intro c hc
    have := alphabet_not_space
    simp only [List.all_eq_true] at this
    apply this
    simpa using hall c hc
  unfold classify
  simp only [p5_rejects, p4_rejects, p3_rejects, p2_rejects, p1_rejects, p0_accepts body hne hsp,
    Bool.false_eq_true, if_false, if_true]

end Lines
end Netconan
