import Netconan.Proofs.RegexFrame
import Netconan.Model.Secrets
/-!
# The secret stage changes nothing outside spans matched by its patterns

`Rew a b`: `b` is obtained from `a` by finitely many rounds, each of which replaces disjoint spans that one of the
patterns matched in the text of that round and copies every other character.
-/
namespace Netconan
namespace Secrets
open Regex

/-- one round: the text is cut into kept characters and spans matched by `r`; the spans are replaced -/
def FrameStep (r : Re) (a b : List Char) : Prop :=
  ∃ segs : List Seg, a = (segs.map Seg.src).flatten ∧ b = (segs.map Seg.dst).flatten ∧
    ∀ sg ∈ segs, ∀ t rp, sg = .rep t rp → ∃ z0 z1 cs fuel, matchAt r fuel z0 = .ok (z1, cs) ∧
      t = (z1.left.take (z1.left.length - z0.left.length)).reverse

inductive Rew (rs : List Re) : List Char → List Char → Prop
  | refl (a) : Rew rs a a
  | step {a b c} (r : Re) : r ∈ rs → FrameStep r a b → Rew rs b c → Rew rs a c

theorem Rew.mono {rs rs' : List Re} (h : ∀ r ∈ rs, r ∈ rs') {a b} (hr : Rew rs a b) : Rew rs' a b := by
  induction hr with
  | refl a => exact .refl a
  | step r hm hf _ ih => exact .step r (h r hm) hf ih

theorem Rew.trans {rs : List Re} {a b c} (h1 : Rew rs a b) (h2 : Rew rs b c) : Rew rs a c := by
  induction h1 with
  | refl a => exact h2
  | step r hm hf _ ih => exact .step r hm hf (ih h2)

theorem sub_frameStep (r : Re) (f : Match → List Char) (s out : List Char) (h : sub r f s = .ok out) : FrameStep r s out := by
  obtain ⟨segs, h1, h2, h3⟩ := sub_frame r f s out h
  refine ⟨segs, h1, h2, ?_⟩
  intro sg hsg t rp hst
  obtain ⟨z0, z1, cs, hm, ht, _⟩ := h3 sg hsg t rp hst
  exact ⟨z0, z1, cs, _, hm, ht⟩

theorem applyOne_rew (x : Ext) (fs : List Re) (salt : List Char) (e : (Re × Option Nat × Option Nat) × String)
    (line : List Char) (lk : Lookup) (res : StepRes) (h : applyOne x fs salt e line lk = .ok res) :
    (∀ out w, res = .scrubbed out w → FrameStep e.1.1 line out) ∧
    (∀ out lk', res = .replaced out lk' → FrameStep e.1.1 line out) := by
  unfold applyOne at h
  cases hs : search e.1.1 line with
  | oof => simp [hs] at h
  | none => simp [hs] at h
  | ok om =>
    cases om with
    | none => simp [hs] at h; subst h; exact ⟨fun _ _ h => (by cases h), fun _ _ h => (by cases h)⟩
    | some mt =>
      simp only [hs] at h
      cases hn : e.1.2.1 with
      | none =>
        simp only [hn] at h
        cases hsub : sub e.1.1 (fun _ => Generated.scrubbedMessage) line with
        | ok out =>
          simp [hsub] at h; subst h
          refine ⟨?_, fun _ _ h => (by cases h)⟩
          intro o w hw
          cases hw
          exact sub_frameStep _ _ _ _ hsub
        | none => simp [hsub] at h
        | oof => simp [hsub] at h
      | some n =>
        simp only [hn] at h
        cases hv : anonymizeValue x fs salt ((mt.group n).getD []) lk with
        | error err => simp [hv] at h
        | ok p =>
          obtain ⟨av, lk'⟩ := p
          simp only [hv] at h
          split at h
          · rename_i out hsub
            simp at h; subst h
            refine ⟨fun _ _ h => (by cases h), ?_⟩
            intro o l hw
            cases hw
            exact sub_frameStep _ _ _ _ hsub
          · simp at h

theorem applyGroup_rew (x : Ext) (fs : List Re) (salt : List Char) :
    ∀ (g : List ((Re × Option Nat × Option Nat) × String)) (line : List Char) (lk : Lookup) (found : Bool) (logs : List LogRec)
      (out : List Char) (lk' : Lookup) (f' : Bool) (logs' : List LogRec),
      applyGroup x fs salt g line lk found logs = .ok (out, lk', f', logs') → Rew (g.map (·.1.1)) line out := by
  intro g
  induction g with
  | nil => intro line lk found logs out lk' f' logs' h; simp [applyGroup] at h; rw [h.1]; exact .refl _
  | cons e es ih =>
    intro line lk found logs out lk' f' logs' h
    simp only [applyGroup] at h
    cases ho : applyOne x fs salt e line lk with
    | error err => simp [ho] at h
    | ok r =>
      have hr := applyOne_rew x fs salt e line lk r ho
      cases r with
      | noMatch =>
        simp only [ho] at h
        exact Rew.mono (fun r hr => by simp [hr]) (ih _ _ _ _ _ _ _ _ h)
      | scrubbed o w =>
        simp only [ho] at h
        simp at h
        rw [← h.1]
        exact .step e.1.1 (by simp) (hr.1 o w rfl) (.refl _)
      | replaced o lk2 =>
        simp only [ho] at h
        exact .step e.1.1 (by simp) (hr.2 o lk2 rfl) (Rew.mono (fun r hr => by simp [hr]) (ih _ _ _ _ _ _ _ _ h))

theorem applyGroups_rew (x : Ext) (fs : List Re) (salt : List Char) :
    ∀ (gs : List (List ((Re × Option Nat × Option Nat) × String))) (line : List Char) (lk : Lookup) (logs : List LogRec)
      (out : List Char) (lk' : Lookup) (logs' : List LogRec),
      applyGroups x fs salt gs line lk logs = .ok (out, lk', logs') → Rew (gs.flatten.map (·.1.1)) line out := by
  intro gs
  induction gs with
  | nil => intro line lk logs out lk' logs' h; simp [applyGroups] at h; rw [h.1]; exact .refl _
  | cons g gs ih =>
    intro line lk logs out lk' logs' h
    simp only [applyGroups] at h
    cases hg : applyGroup x fs salt g line lk false logs with
    | error err => simp [hg] at h
    | ok p =>
      obtain ⟨l1, lk1, found, logs1⟩ := p
      simp only [hg] at h
      have h1 := applyGroup_rew x fs salt g line lk false logs l1 lk1 found logs1 hg
      have h1' : Rew ((g :: gs).flatten.map (·.1.1)) line l1 :=
        Rew.mono (fun r hr => by simp only [List.flatten_cons, List.map_append, List.mem_append]; exact Or.inl hr) h1
      split at h
      · simp at h; rw [← h.1]; exact h1'
      · have h2 := ih _ _ _ _ _ _ h
        exact h1'.trans (Rew.mono (fun r hr => by simp only [List.flatten_cons, List.map_append, List.mem_append]; exact Or.inr hr) h2)

end Secrets
end Netconan
