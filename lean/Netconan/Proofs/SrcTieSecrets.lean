import Netconan.Generated.SrcSecrets
/-!
# The translated source is the hand-written model (secret formats)

`Generated/SrcSecrets.lean` is produced on every run from the text of netconan's functions by `harness/py2lean.py`.
Each theorem here states that a translated function computes what the corresponding function of `Model/*.lean`
computes - for every argument and every cache state - so that the theorems of `Props/` (which are about the
model) are theorems about the source as it reads now.  When the source changes, these are the obligations that
have to be re-proved.
-/
namespace Netconan.SrcTie
open Netconan Netconan.Generated

/-! ## `_check_sensitive_item_format` -/
theorem check_format_tie (fs : List Regex.Re) (val : List Char) :
    Src.check_sensitive_item_format fs val = Secrets.classify fs val := by
  unfold Src.check_sensitive_item_format Secrets.classify
  simp only [Id.run, bind, pure]

end Netconan.SrcTie
