import Netconan.Generated.SrcSecrets
import Netconan.Props.C18
/-!
# The translated source is the hand-written model (secret formats)

`Generated/SrcSecrets.lean` is produced on every run from the text of netconan's functions by `harness/py2lean.py`.
Each theorem here states that a translated function computes what the corresponding function of `Model/*.lean`
computes - for every argument and every cache state - so that the theorems of `Props/` (which are about the
model) are theorems about the source as it reads now.  When the source changes, these are the obligations that
have to be re-proved.
-/
namespace Netconan.SrcTie
open Netconan Netconan.Generated

/-! ## `_check_sensitive_item_format` -/
theorem check_format_tie (fs : List Regex.Re) (val : List Char) :
    Src.check_sensitive_item_format fs val = Secrets.classify fs val := by
  unfold Src.check_sensitive_item_format Secrets.classify
  simp only [Id.run, bind, pure]


/-! ## `_extract_enclosing_text` -/

/-- a pure `for` loop without `return` whose body maps the loop-carried variables by `step` is `foldl step` -/
theorem forLoop_pure_fold {α σ ρ : Type} (xs : List α) (s : σ) (body : α → σ → Id (Sum ρ σ)) (step : σ → α → σ)
    (hbody : ∀ x s, body x s = pure (Sum.inr (step s x))) (k : σ → Id ρ) :
    Py.forLoop (m := Id) xs s body k = k (xs.foldl step s) := by
  induction xs generalizing s with
  | nil => rfl
  | cons x xs ih =>
    simp only [Py.forLoop, List.foldl, hbody]
    exact ih _

open Secrets in
/-- **`_extract_enclosing_text` as written in the source (a `while True` around two `for` loops) is the model's
`extractEnclosingW` over the regenerated tables**, with the same fuel -/
theorem extract_tie (fuel : Nat) (v h t : List Char) :
    Src.extract_enclosing_text fuel v h t = extractEnclosing fuel v h t := by
  unfold Src.extract_enclosing_text extractEnclosing
  generalize headText = hs
  generalize tailText = ts
  induction fuel generalizing v h t with
  | zero => rfl
  | succ n ih =>
    simp only [Py.whileLoop, extractEnclosingW]
    rw [forLoop_pure_fold hs (h, v) _
      (fun hv t => if startsWith hv.2 t then (hv.1 ++ t, hv.2.drop t.length) else hv)]
    · rw [forLoop_pure_fold ts _ _
        (fun tv t => if endsWith tv.2 t then (t ++ tv.1, tv.2.take (tv.2.length - t.length)) else tv)]
      · simp only [stripPassW, stripHeads, stripTails]
        split
        · next hc => simp only [hc, ↓reduceIte]; rfl
        · next hc => simp only [hc, Bool.false_eq_true, ↓reduceIte]; exact ih _ _ _
      · intro x s
        obtain ⟨a, b⟩ := s
        by_cases hx : endsWith b x = true <;> simp [hx]
    · intro x s
      obtain ⟨a, b⟩ := s
      by_cases hx : startsWith b x = true <;> simp [hx]

end Netconan.SrcTie

namespace Netconan.SrcTie
open Netconan Netconan.Generated

/-! ## `_anonymize_value` -/
open Secrets in
/-- the six format `if`s of the source render the pseudonym as `renderAs` does -/
theorem tryValue_decrypt (val : List Char) (s : Lookup) :
    Py.tryValue (Juniper.decrypt val) none s =
      .ok ((match Juniper.decrypt val with | .ok p => some p | .error _ => none), s) := by
  rcases Props.C18.decrypt_total val with ⟨p, hp⟩ | he
  · simp [hp, Py.tryValue]
  · simp [he, Py.tryValue]

open Secrets in
/-- the six format `if`s of the source render the pseudonym as `renderAs` does -/
theorem render_chain (x : Ext) (salt val base : List Char) (f : Fmt) (s : Lookup) {β : Type}
    (k : List Char → Py.L β) :
    (do
      let anon_val := base
      let anon_val ← (if (f == Fmt.type7) then do let anon_val := type7 9 anon_val; pure anon_val else do pure anon_val : Py.L _)
      let anon_val ← (if (f == Fmt.numeric) then do let anon_val := numericOf anon_val; pure anon_val else do pure anon_val : Py.L _)
      let anon_val ← (if (f == Fmt.hex) then do let anon_val := hexOf anon_val; pure anon_val else do pure anon_val : Py.L _)
      let anon_val ← (if (f == Fmt.md5) then do
          let old_salt_size := md5SaltLen val
          let anon_val := x.md5crypt old_salt_size anon_val
          pure anon_val else do pure anon_val : Py.L _)
      let anon_val ← (if (f == Fmt.sha512) then do let anon_val := x.sha512crypt anon_val; pure anon_val else do pure anon_val : Py.L _)
      let anon_val ← (if (f == Fmt.jun9) then do
          let anon_val := (← Py.lift (Juniper.encrypt anon_val (some salt)))
          pure anon_val else do pure anon_val : Py.L _)
      k anon_val) s =
    (match renderAs x salt f (md5SaltLen val) base with
     | .error e => .error e
     | .ok a => k a s) := by
  cases f <;> simp [renderAs, Py.lift]
  cases Juniper.encrypt base (some salt) <;> simp

open Secrets in
/-- **`_anonymize_value` as written in the source is the model's `anonymizeValue`**, for every value, salt and lookup table -/
theorem anonymize_value_tie (x : Ext) (fs : List Regex.Re) (salt raw : List Char) (lk : Lookup) :
    Src.anonymize_value x fs raw salt lk = anonymizeValue x fs salt raw lk := by
  unfold Src.anonymize_value anonymizeValue
  simp only [extract_tie]
  generalize extractEnclosing (raw.length + 1) raw [] [] = e
  obtain ⟨h, val, t⟩ := e
  simp only []
  by_cases hr : x.isReserved val = true
  · simp [hr]
  · simp only [hr, Bool.false_eq_true, ↓reduceIte]
    by_cases he : val.isEmpty = true
    · simp [he, Py.truthy, Py.Truthy.truthy]
    · simp only [he, Py.truthy, Py.Truthy.truthy, Bool.not_false, Bool.not_true, Bool.false_eq_true, ↓reduceIte]
      have hdec : (if id (startsWith val junMagic) = true then Py.tryValue (Juniper.decrypt val) none else pure none : Py.L _) lk
          = .ok (decryptedOf val, lk) := by
        unfold decryptedOf
        by_cases hm : startsWith val junMagic = true
        · simp only [hm, id, ↓reduceIte, tryValue_decrypt]
          rfl
        · simp [hm]
      simp only [Py.lbind_apply, hdec, Py.lookup_apply, check_format_tie]
      unfold anonCore
      generalize decryptedOf val = d
      cases hg : lk.get val with
      | some a => simp [Py.lkGet, hg]
      | none =>
        simp only [Option.isSome_none, Bool.false_eq_true, ↓reduceIte]
        cases d with
        | none =>
          simp only [Py.optIn, Bool.false_eq_true, ↓reduceIte, Option.bind_none]
          cases hf : classify fs val <;> simp [renderAs, Py.lift, Py.lkSet, Py.lbind_apply]
          cases Juniper.encrypt (pseudonym lk.length) (some salt) <;> simp
        | some p =>
          simp only [Py.optIn, Option.bind_some]
          cases hgp : lk.get p with
          | some a =>
            simp [Py.lkGetOpt, Py.lkGet, hgp, Py.lift]
            cases Juniper.encrypt a (some salt) <;> simp
          | none =>
            simp only [Py.lbind_apply, Py.lookup_apply, hgp, Option.isSome_none, Bool.false_eq_true, ↓reduceIte]
            by_cases hpe : p.isEmpty = true
            · cases hf : classify fs val <;> simp [renderAs, Py.lift, Py.lkSet, Py.lbind_apply, hpe]
              cases Juniper.encrypt (pseudonym lk.length) (some salt) <;> simp
            · cases hf : classify fs val <;>
                simp only [renderAs, Py.lift, Py.lkSet, Py.lkSetOpt, Py.lbind_apply, Py.lpure_apply, hpe, Bool.not_false, Bool.not_true,
                  Bool.false_eq_true, ↓reduceIte, beq_self_eq_true, reduceCtorEq, beq_iff_eq]
              case jun9 =>
                cases Juniper.encrypt (pseudonym lk.length) (some salt) with
                | error e => rfl
                | ok c => simp only []; cases Juniper.decrypt c <;> rfl
              all_goals (generalize Juniper.decrypt _ = r; cases r <;> rfl)

end Netconan.SrcTie
