import Netconan.Generated.SrcSecrets
import Netconan.Props.C18
/-!
# The translated source is the hand-written model (secret formats)

`Generated/SrcSecrets.lean` is produced on every run from the text of netconan's functions by `harness/py2lean.py`.
Each theorem here states that a translated function computes what the corresponding function of `Model/*.lean`
computes - for every argument and every cache state - so that the theorems of `Props/` (which are about the
model) are theorems about the source as it reads now.  When the source changes, these are the obligations that
have to be re-proved.
-/
namespace Netconan.SrcTie
open Netconan Netconan.Generated

/-! ## `_check_sensitive_item_format` -/
theorem check_format_tie (fs : List Regex.Re) (val : List Char) :
    Src.check_sensitive_item_format fs val = Secrets.classify fs val := by
  unfold Src.check_sensitive_item_format Secrets.classify
  simp only [Id.run, bind, pure]


/-! ## `_extract_enclosing_text` -/

/-- a pure `for` loop without `return` whose body maps the loop-carried variables by `step` is `foldl step` -/
theorem forLoop_pure_fold {α σ ρ : Type} (xs : List α) (s : σ) (body : α → σ → Id (Sum ρ σ)) (step : σ → α → σ)
    (hbody : ∀ x s, body x s = pure (Sum.inr (step s x))) (k : σ → Id ρ) :
    Py.forLoop (m := Id) xs s body k = k (xs.foldl step s) := by
  induction xs generalizing s with
  | nil => rfl
  | cons x xs ih =>
    simp only [Py.forLoop, List.foldl, hbody]
    exact ih _

open Secrets in
/-- **`_extract_enclosing_text` as written in the source (a `while True` around two `for` loops) is the model's
`extractEnclosingW` over the regenerated tables**, with the same fuel -/
theorem extract_tie (fuel : Nat) (v h t : List Char) :
    Src.extract_enclosing_text fuel v h t = extractEnclosing fuel v h t := by
  unfold Src.extract_enclosing_text extractEnclosing
  generalize headText = hs
  generalize tailText = ts
  induction fuel generalizing v h t with
  | zero => rfl
  | succ n ih =>
    simp only [Py.whileLoop, extractEnclosingW]
    rw [forLoop_pure_fold hs (h, v) _
      (fun hv t => if startsWith hv.2 t then (hv.1 ++ t, hv.2.drop t.length) else hv)]
    · rw [forLoop_pure_fold ts _ _
        (fun tv t => if endsWith tv.2 t then (t ++ tv.1, tv.2.take (tv.2.length - t.length)) else tv)]
      · simp only [stripPassW, stripHeads, stripTails]
        split
        · next hc => simp only [hc, ↓reduceIte]; rfl
        · next hc => simp only [hc, Bool.false_eq_true, ↓reduceIte]; exact ih _ _ _
      · intro x s
        obtain ⟨a, b⟩ := s
        by_cases hx : endsWith b x = true <;> simp [hx]
    · intro x s
      obtain ⟨a, b⟩ := s
      by_cases hx : startsWith b x = true <;> simp [hx]

end Netconan.SrcTie

namespace Netconan.SrcTie
open Netconan Netconan.Generated

/-! ## `_anonymize_value` -/
open Secrets in
/-- the six format `if`s of the source render the pseudonym as `renderAs` does -/
theorem tryValue_decrypt (val : List Char) (s : Lookup) :
    Py.tryValue (Juniper.decrypt val) none s =
      .ok ((match Juniper.decrypt val with | .ok p => some p | .error _ => none), s) := by
  rcases Props.C18.decrypt_total val with ⟨p, hp⟩ | he
  · simp [hp, Py.tryValue]
  · simp [he, Py.tryValue]

open Secrets in
/-- the six format `if`s of the source render the pseudonym as `renderAs` does -/
theorem render_chain (x : Ext) (salt val base : List Char) (f : Fmt) (s : Lookup) {β : Type}
    (k : List Char → Py.L β) :
    (do
      let anon_val := base
      let anon_val ← (if (f == Fmt.type7) then do let anon_val := type7 9 anon_val; pure anon_val else do pure anon_val : Py.L _)
      let anon_val ← (if (f == Fmt.numeric) then do let anon_val := numericOf anon_val; pure anon_val else do pure anon_val : Py.L _)
      let anon_val ← (if (f == Fmt.hex) then do let anon_val := hexOf anon_val; pure anon_val else do pure anon_val : Py.L _)
      let anon_val ← (if (f == Fmt.md5) then do
          let old_salt_size := md5SaltLen val
          let anon_val := x.md5crypt old_salt_size anon_val
          pure anon_val else do pure anon_val : Py.L _)
      let anon_val ← (if (f == Fmt.sha512) then do let anon_val := x.sha512crypt anon_val; pure anon_val else do pure anon_val : Py.L _)
      let anon_val ← (if (f == Fmt.jun9) then do
          let anon_val := (← Py.lift (Juniper.encrypt anon_val (some salt)))
          pure anon_val else do pure anon_val : Py.L _)
      k anon_val) s =
    (match renderAs x salt f (md5SaltLen val) base with
     | .error e => .error e
     | .ok a => k a s) := by
  cases f <;> simp [renderAs, Py.lift]
  cases Juniper.encrypt base (some salt) <;> simp

open Secrets in
/-- **`_anonymize_value` as written in the source is the model's `anonymizeValue`**, for every value, salt and lookup table -/
theorem anonymize_value_tie (x : Ext) (fs : List Regex.Re) (salt raw : List Char) (lk : Lookup) :
    Src.anonymize_value x fs raw salt lk = anonymizeValue x fs salt raw lk := by
  unfold Src.anonymize_value anonymizeValue
  simp only [extract_tie]
  generalize extractEnclosing (raw.length + 1) raw [] [] = e
  obtain ⟨h, val, t⟩ := e
  simp only []
  by_cases hr : x.isReserved val = true
  · simp [hr]
  · simp only [hr, Bool.false_eq_true, ↓reduceIte]
    by_cases he : val.isEmpty = true
    · simp [he, Py.truthy, Py.Truthy.truthy]
    · simp only [he, Py.truthy, Py.Truthy.truthy, Bool.not_false, Bool.not_true, Bool.false_eq_true, ↓reduceIte]
      have hdec : (if id (startsWith val junMagic) = true then Py.tryValue (Juniper.decrypt val) none else pure none : Py.L _) lk
          = .ok (decryptedOf val, lk) := by
        unfold decryptedOf
        by_cases hm : startsWith val junMagic = true
        · simp only [hm, id, ↓reduceIte, tryValue_decrypt]
          rfl
        · simp [hm]
      simp only [Py.lbind_apply, hdec, Py.lookup_apply, check_format_tie]
      unfold anonCore
      generalize decryptedOf val = d
      cases hg : lk.get val with
      | some a => simp [Py.lkGet, hg]
      | none =>
        simp only [Option.isSome_none, Bool.false_eq_true, ↓reduceIte]
        cases d with
        | none =>
          simp only [Py.optIn, Bool.false_eq_true, ↓reduceIte, Option.bind_none]
          cases hf : classify fs val <;> simp [renderAs, Py.lift, Py.lkSet, Py.lbind_apply]
          cases Juniper.encrypt (pseudonym lk.length) (some salt) <;> simp
        | some p =>
          simp only [Py.optIn, Option.bind_some]
          cases hgp : lk.get p with
          | some a =>
            simp [Py.lkGetOpt, Py.lkGet, hgp, Py.lift]
            cases Juniper.encrypt a (some salt) <;> simp
          | none =>
            simp only [Py.lbind_apply, Py.lookup_apply, hgp, Option.isSome_none, Bool.false_eq_true, ↓reduceIte]
            by_cases hpe : p.isEmpty = true
            · cases hf : classify fs val <;> simp [renderAs, Py.lift, Py.lkSet, Py.lbind_apply, hpe]
              cases Juniper.encrypt (pseudonym lk.length) (some salt) <;> simp
            · cases hf : classify fs val <;>
                simp only [renderAs, Py.lift, Py.lkSet, Py.lkSetOpt, Py.lbind_apply, Py.lpure_apply, hpe, Bool.not_false, Bool.not_true,
                  Bool.false_eq_true, ↓reduceIte, beq_self_eq_true, reduceCtorEq, beq_iff_eq]
              case jun9 =>
                cases Juniper.encrypt (pseudonym lk.length) (some salt) with
                | error e => rfl
                | ok c => simp only []; cases Juniper.decrypt c <;> rfl
              all_goals (generalize Juniper.decrypt _ = r; cases r <;> rfl)

/-! ## `replace_matching_item` -/
section rmi
open Secrets Regex
variable (x : Ext) (fs : List Re) (salt : List Char)

/-- what one round of the inner loop does, in terms of the model's `applyOne` -/
def innerSpec {ρ : Type} (e : (Re × Option Nat × Option Nat) × String) (st : Bool × List LogRec × List Char) (lk : Lookup) :
    Except Err (Py.Step ρ (Bool × List LogRec × List Char) × Lookup) :=
  match applyOne x fs salt e st.2.2 lk with
  | .error err => .error err
  | .ok .noMatch => .ok (Py.Step.next (st.1, st.2.1, st.2.2), lk)
  | .ok (.scrubbed out w) => .ok (Py.Step.brk (true, st.2.1 ++ [w], out), lk)
  | .ok (.replaced out lk') => .ok (Py.Step.next (true, st.2.1, out), lk')

/-- a loop whose rounds are `innerSpec` is the model's `applyGroup`, followed by the rest -/
theorem inner_loop {ρ : Type} (es : List ((Re × Option Nat × Option Nat) × String))
    (body : (Re × Option Nat × Option Nat) × String → Bool × List LogRec × List Char →
      Py.L (Py.Step ρ (Bool × List LogRec × List Char)))
    (hbody : ∀ e st lk, body e st lk = innerSpec x fs salt e st lk)
    (found : Bool) (logs : List LogRec) (line : List Char)
    (k : Bool × List LogRec × List Char → Py.L ρ) (lk : Lookup) :
    Py.forLoopB (m := Py.L) es (found, logs, line) body k lk
    = (match applyGroup x fs salt es line lk found logs with
       | .error e => .error e
       | .ok (line', lk', found', logs') => k (found', logs', line') lk') := by
  induction es generalizing found logs line lk with
  | nil => rfl
  | cons e es ih =>
    simp only [Py.forLoopB, applyGroup, Py.lbind_apply, hbody, innerSpec]
    cases h1 : applyOne x fs salt e line lk with
    | error err => rfl
    | ok r =>
      cases r with
      | noMatch => exact ih _ _ _ _
      | scrubbed out w => rfl
      | replaced out lk' => exact ih _ _ _ _

/-- what one round of the outer loop does, in terms of the model's `applyGroup` -/
def outerSpec (g : List ((Re × Option Nat × Option Nat) × String)) (st : List LogRec × List Char) (lk : Lookup) :
    Except Err (Py.Step (List Char × List LogRec) (List LogRec × List Char) × Lookup) :=
  match applyGroup x fs salt g st.2 lk false st.1 with
  | .error err => .error err
  | .ok (line', lk', found, logs') => .ok (if found then Py.Step.brk (logs', line') else Py.Step.next (logs', line'), lk')

theorem outer_loop (gs : List (List ((Re × Option Nat × Option Nat) × String)))
    (body : List ((Re × Option Nat × Option Nat) × String) → List LogRec × List Char →
      Py.L (Py.Step (List Char × List LogRec) (List LogRec × List Char)))
    (hbody : ∀ g st lk, body g st lk = outerSpec x fs salt g st lk)
    (logs : List LogRec) (line : List Char)
    (k : List LogRec × List Char → Py.L (List Char × List LogRec)) (lk : Lookup) :
    Py.forLoopB (m := Py.L) gs (logs, line) body k lk
    = (match applyGroups x fs salt gs line lk logs with
       | .error e => .error e
       | .ok (line', lk', logs') => k (logs', line') lk') := by
  induction gs generalizing logs line lk with
  | nil => rfl
  | cons g gs ih =>
    simp only [Py.forLoopB, applyGroups, Py.lbind_apply, hbody, outerSpec]
    cases h1 : applyGroup x fs salt g line lk false logs with
    | error err => rfl
    | ok r =>
      obtain ⟨line', lk', found, logs'⟩ := r
      cases found with
      | true => rfl
      | false => exact ih _ _ _

/-- **`replace_matching_item` as written in the source is the model's `replaceMatchingItem`**: the whole control structure (split and
re-join of the line, enclosing text of the line, first group with a match wins, every pattern of that group applied to what the
previous one wrote, `None` index scrubs and ends the group, `prefix + _anonymize_value(group n)` substituted for every match) is read
from the source text; for every group table, salt, line and lookup table. -/
theorem replace_matching_item_tie (groups : List (List ((Re × Option Nat × Option Nat) × String))) (input : List Char) (lk : Lookup) :
    Src.replace_matching_item x fs groups input salt lk =
      (match replaceMatchingItem x fs groups salt input lk with
       | .error e => .error e
       | .ok (out, lk', logs) => .ok ((out, logs), lk')) := by
  unfold Src.replace_matching_item replaceMatchingItem
  simp only [extract_tie]
  generalize splitLine x.isSpace input = sp
  obtain ⟨leading, words, trailing⟩ := sp
  simp only []
  generalize extractEnclosing ((joinSp words).length + 1) (joinSp words) leading trailing = ee
  obtain ⟨ld, body0, tr⟩ := ee
  simp only []
  rw [outer_loop x fs salt]
  · cases applyGroups x fs salt groups body0 lk [] with
    | error e => rfl
    | ok r => obtain ⟨o, l, g⟩ := r; rfl
  · intro g st lk1
    obtain ⟨logs, line⟩ := st
    simp only [outerSpec]
    rw [inner_loop x fs salt]
    · cases applyGroup x fs salt g line lk1 false logs with
      | error e => rfl
      | ok r =>
        obtain ⟨l', k', f', g'⟩ := r
        cases f' <;> rfl
    · intro e st lk2
      obtain ⟨⟨re, num, pfx⟩, txt⟩ := e
      obtain ⟨found, logs2, line2⟩ := st
      simp only [innerSpec, applyOne, Py.lbind_apply, Py.searchL]
      cases hs : search re line2 with
      | oof => rfl
      | none => rfl
      | ok m =>
        cases m with
        | none => rfl
        | some mt =>
          simp only [Py.lmpure_apply]
          cases num with
          | none =>
            simp only [Py.lbind_apply, Py.subL]
            cases hsub : sub re (fun _ => scrubbedMessage) line2 <;> rfl
          | some n =>
            simp only [Py.lbind_apply, anonymize_value_tie]
            cases hav : anonymizeValue x fs salt ((mt.group n).getD []) lk2 with
            | error err => rfl
            | ok p =>
              obtain ⟨av, lk'⟩ := p
              simp only [Py.subL]
              cases hsub : sub re (fun _ => (match pfx with | some p => (mt.group p).getD [] | none => []) ++ av) line2 <;> rfl
end rmi

end Netconan.SrcTie
