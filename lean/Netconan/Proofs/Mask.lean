import Netconan.Model.Mask
/-! The bit trick of `_is_mask`: `d &&& (2^n - d) = d` iff `d` has at most one bit set. -/
namespace Netconan
namespace Mask

theorem and_even (a b : Nat) : (2*a) &&& (2*b) = 2*(a &&& b) := by
  apply Nat.eq_of_testBit_eq
  intro i
  cases i with
  | zero => simp [Nat.testBit_zero]
  | succ i => simp [Nat.testBit_add_one, Nat.and_div_two]

theorem and_odd (a b : Nat) : (2*a+1) &&& (2*b+1) = 2*(a &&& b) + 1 := by
  apply Nat.eq_of_testBit_eq
  intro i
  cases i with
  | zero => simp [Nat.testBit_zero]
  | succ i =>
    have h1 : (2*a+1)/2 = a := by omega
    have h2 : (2*b+1)/2 = b := by omega
    have h3 : (2*(a &&& b)+1)/2 = a &&& b := by omega
    simp only [Nat.testBit_add_one, Nat.and_div_two, h1, h2, h3]

theorem and_compl (n e : Nat) (he : e < 2^n) : e &&& (2^n - (e+1)) = 0 := by
  apply Nat.eq_of_testBit_eq
  intro i
  simp only [Nat.testBit_and, Nat.testBit_two_pow_sub_succ he, Nat.zero_testBit]
  cases e.testBit i <;> simp

theorem trick (n : Nat) : ∀ d, d < 2^n → ((d &&& (2^n - d)) = d ↔ d = 0 ∨ ∃ k, d = 2^k) := by
  induction n with
  | zero => intro d hd; simp at hd; subst hd; simp
  | succ n ih =>
    intro d hd
    have hsplit : ∃ e, d = 2*e ∨ d = 2*e+1 := ⟨d/2, by omega⟩
    rcases hsplit with ⟨e, rfl | rfl⟩
    · have he : e < 2^n := by rw [Nat.pow_succ] at hd; omega
      have : 2^(n+1) - 2*e = 2*(2^n - e) := by rw [Nat.pow_succ]; omega
      rw [this, and_even]
      constructor
      · intro h
        have h' : e &&& (2^n - e) = e := by omega
        rcases (ih e he).mp h' with rfl | ⟨k, rfl⟩
        · left; rfl
        · right; exact ⟨k+1, by rw [Nat.pow_succ]; omega⟩
      · rintro (h | ⟨k, hk⟩)
        · have : e = 0 := by omega
          subst this; simp
        · cases k with
          | zero => omega
          | succ k =>
            have : e = 2^k := by rw [Nat.pow_succ] at hk; omega
            have h' := (ih e he).mpr (Or.inr ⟨k, this⟩)
            omega
    · have he : e < 2^n := by rw [Nat.pow_succ] at hd; omega
      have : 2^(n+1) - (2*e+1) = 2*(2^n - (e+1)) + 1 := by rw [Nat.pow_succ]; omega
      rw [this, and_odd, and_compl n e he]
      constructor
      · intro h
        have : e = 0 := by omega
        subst this; right; exact ⟨0, rfl⟩
      · rintro (h | ⟨k, hk⟩)
        · omega
        · cases k with
          | zero => have : e = 0 := by simp at hk; omega
                    subst this; rfl
          | succ k => rw [Nat.pow_succ] at hk; omega

/-- xor with the all-ones word is the complement -/
theorem ones_xor (n d : Nat) (hd : d < 2^n) : (2^n - 1) ^^^ d = 2^n - 1 - d := by
  apply Nat.eq_of_testBit_eq
  intro i
  have h2 : 2^n - 1 - d = 2^n - (d + 1) := by omega
  rw [h2, Nat.testBit_xor, Nat.testBit_two_pow_sub_one, Nat.testBit_two_pow_sub_succ hd]
  by_cases hi : i < n
  · simp [hi]
  · have : d.testBit i = false := Nat.testBit_lt_two_pow (Nat.lt_of_lt_of_le hd (Nat.pow_le_pow_right (by omega) (by omega)))
    simp [hi, this]

theorem diffOf_lt (x : Nat) : diffOf x < 2^32 := by
  unfold diffOf
  have : (x ^^^ x >>> 1) &&& 0x7FFFFFFF ≤ 0x7FFFFFFF := Nat.and_le_right
  omega

/-- `_is_mask x` says exactly: the adjacent-bit difference word has at most one bit set. -/
theorem isMask_iff (x : Nat) : isMask x = true ↔ (diffOf x = 0 ∨ ∃ k, diffOf x = 2^k) := by
  unfold isMask
  have hd := diffOf_lt x
  have h1 : (0xFFFFFFFF ^^^ diffOf x) + 1 = 2^32 - diffOf x := by
    have := ones_xor 32 (diffOf x) hd
    have e : (0xFFFFFFFF : Nat) = 2^32 - 1 := by decide
    rw [e, this]; omega
  show ((diffOf x &&& ((0xFFFFFFFF ^^^ diffOf x) + 1)) == diffOf x) = true ↔ _
  rw [h1, beq_iff_eq]
  exact trick 32 _ hd

end Mask
end Netconan
