import Netconan.Proofs.Render
/-! The numeric re-encoding `str(int(hexlify(s), 16))` is injective on texts that do not start with NUL. -/
namespace Netconan
namespace Secrets

theorem digit_toNat : ∀ k, k < 10 → (Char.ofNat (48 + k)).toNat - 48 = k := by decide +kernel

theorem decVal_aux (f : Nat) : ∀ n acc, n < f →
    (decDigitsAux f n acc).foldl (fun a c => a * 10 + (c.toNat - 48)) 0
      = acc.foldl (fun a c => a * 10 + (c.toNat - 48)) n := by
  induction f with
  | zero => intro n acc h; omega
  | succ f ih =>
    intro n acc h
    simp only [decDigitsAux]
    have hd := digit_toNat (n % 10) (Nat.mod_lt _ (by decide))
    split
    · next hlt =>
      simp only [List.foldl_cons, hd]
      congr 1; omega
    · next hge =>
      rw [ih (n / 10) _ (by omega)]
      simp only [List.foldl_cons, hd]
      congr 1; omega

/-- `int(str(n)) = n` -/
theorem decVal_decDigits (n : Nat) : decVal (decDigits n) = n := by
  unfold decVal decDigits
  rw [decVal_aux (n + 1) n [] (by omega)]
  rfl

theorem decDigits_injective (a b : Nat) (h : decDigits a = decDigits b) : a = b := by
  rw [← decVal_decDigits a, ← decVal_decDigits b, h]

def bytesFrom (acc : Nat) (l : List Char) : Nat := l.foldl (fun a c => a * 256 + c.toNat) acc

theorem bytesFrom_bounds (l : List Char) (h : ∀ c ∈ l, c.toNat < 256) : ∀ acc,
    acc * 256 ^ l.length ≤ bytesFrom acc l ∧ bytesFrom acc l < (acc + 1) * 256 ^ l.length := by
  induction l with
  | nil => intro acc; simp [bytesFrom]
  | cons c cs ih =>
    intro acc
    have hc : c.toNat < 256 := h c (by simp)
    obtain ⟨h1, h2⟩ := ih (fun d hd => h d (by simp [hd])) (acc * 256 + c.toNat)
    have e1 : acc * 256 ^ (c :: cs).length = acc * 256 * 256 ^ cs.length := by
      simp only [List.length_cons, Nat.pow_succ]; rw [Nat.mul_comm (256 ^ cs.length) 256, Nat.mul_assoc]
    have e2 : (acc + 1) * 256 ^ (c :: cs).length = (acc + 1) * 256 * 256 ^ cs.length := by
      simp only [List.length_cons, Nat.pow_succ]; rw [Nat.mul_comm (256 ^ cs.length) 256, Nat.mul_assoc]
    have l1 : acc * 256 * 256 ^ cs.length ≤ (acc * 256 + c.toNat) * 256 ^ cs.length :=
      Nat.mul_le_mul_right _ (by omega)
    have l2 : (acc * 256 + c.toNat + 1) * 256 ^ cs.length ≤ (acc + 1) * 256 * 256 ^ cs.length :=
      Nat.mul_le_mul_right _ (by omega)
    show _ ≤ bytesFrom (acc * 256 + c.toNat) cs ∧ bytesFrom (acc * 256 + c.toNat) cs < _
    rw [e1, e2]
    exact ⟨Nat.le_trans l1 h1, Nat.lt_of_lt_of_le h2 l2⟩

theorem bytesFrom_inj (l l' : List Char) (h : ∀ c ∈ l, c.toNat < 256) (h' : ∀ c ∈ l', c.toNat < 256)
    (hlen : l.length = l'.length) : ∀ x y, bytesFrom x l = bytesFrom y l' → x = y ∧ l = l' := by
  induction l generalizing l' with
  | nil =>
    intro x y e
    cases l' with
    | nil => exact ⟨e, rfl⟩
    | cons _ _ => simp at hlen
  | cons c cs ih =>
    intro x y e
    cases l' with
    | nil => simp at hlen
    | cons d ds =>
      have hc : c.toNat < 256 := h c (by simp)
      have hd : d.toNat < 256 := h' d (by simp)
      have := ih ds (fun z hz => h z (by simp [hz])) (fun z hz => h' z (by simp [hz]))
        (by simpa using hlen) (x * 256 + c.toNat) (y * 256 + d.toNat) e
      obtain ⟨e1, e2⟩ := this
      have hx : x = y := by omega
      have hcd : c.toNat = d.toNat := by omega
      exact ⟨hx, by rw [e2, Char.toNat_inj.mp hcd]⟩

theorem pow_le_pow_256 {a b : Nat} (h : a ≤ b) : 256 ^ a ≤ 256 ^ b := Nat.pow_le_pow_right (by decide) h

/-- a text whose first character is not NUL has its length determined by its byte value -/
theorem bytesVal_window (c : Char) (cs : List Char) (h : ∀ d ∈ c :: cs, d.toNat < 256) (h0 : c.toNat ≠ 0) :
    256 ^ cs.length ≤ bytesVal (c :: cs) ∧ bytesVal (c :: cs) < 256 ^ (cs.length + 1) := by
  have hc : c.toNat < 256 := h c (by simp)
  obtain ⟨h1, h2⟩ := bytesFrom_bounds cs (fun d hd => h d (by simp [hd])) (0 * 256 + c.toNat)
  have e : bytesVal (c :: cs) = bytesFrom (0 * 256 + c.toNat) cs := rfl
  rw [e]
  constructor
  · refine Nat.le_trans ?_ h1
    have : 1 * 256 ^ cs.length ≤ (0 * 256 + c.toNat) * 256 ^ cs.length := Nat.mul_le_mul_right _ (by omega)
    simpa using this
  · refine Nat.lt_of_lt_of_le h2 ?_
    rw [Nat.pow_succ, Nat.mul_comm (256 ^ cs.length) 256]
    exact Nat.mul_le_mul_right _ (by omega)

theorem bytesVal_injective (a b : List Char) (ha : ∀ c ∈ a, c.toNat < 256) (hb : ∀ c ∈ b, c.toNat < 256)
    (ha0 : ∀ c, a.head? = some c → c.toNat ≠ 0) (hb0 : ∀ c, b.head? = some c → c.toNat ≠ 0)
    (h : bytesVal a = bytesVal b) : a = b := by
  have key : ∀ (a b : List Char), (∀ c ∈ a, c.toNat < 256) → (∀ c ∈ b, c.toNat < 256) →
      (∀ c, a.head? = some c → c.toNat ≠ 0) → (∀ c, b.head? = some c → c.toNat ≠ 0) →
      bytesVal a = bytesVal b → a.length ≤ b.length → a = b := by
    intro a b ha hb ha0 hb0 h hle
    cases b with
    | nil => cases a with
      | nil => rfl
      | cons _ _ => simp at hle
    | cons d ds =>
      have wb := bytesVal_window d ds hb (hb0 d rfl)
      cases a with
      | nil =>
        have : bytesVal [] = 0 := rfl
        have hp : 0 < 256 ^ ds.length := Nat.pow_pos (by decide)
        omega
      | cons c cs =>
        have wa := bytesVal_window c cs ha (ha0 c rfl)
        have hlen : cs.length = ds.length := by
          by_cases hl : cs.length = ds.length
          · exact hl
          · have : cs.length + 1 ≤ ds.length := by simp at hle; omega
            have := pow_le_pow_256 this
            omega
        have := bytesFrom_inj (c :: cs) (d :: ds) ha hb (by simp [hlen]) 0 0 h
        exact this.2
  by_cases hle : a.length ≤ b.length
  · exact key a b ha hb ha0 hb0 h hle
  · exact (key b a hb ha hb0 ha0 h.symm (by omega)).symm

/-- **numeric** is injective on texts that do not start with NUL – in particular on pseudonyms -/
theorem numericOf_injective (a b : List Char) (ha : ∀ c ∈ a, c.toNat < 256) (hb : ∀ c ∈ b, c.toNat < 256)
    (ha0 : ∀ c, a.head? = some c → c.toNat ≠ 0) (hb0 : ∀ c, b.head? = some c → c.toNat ≠ 0)
    (h : numericOf a = numericOf b) : a = b :=
  bytesVal_injective a b ha hb ha0 hb0 (decDigits_injective _ _ h)

end Secrets
end Netconan
