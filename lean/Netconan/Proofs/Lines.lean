import Netconan.Model.Lines
import Netconan.Proofs.Secrets
/-! Lemmas about `readlines`, the per-line loop and the secret stage's totality. -/
namespace Netconan
namespace Lines
open Regex Secrets

/-! ### readlines loses nothing -/

theorem readlinesLF_go_flatten (s cur : List Char) :
    (readlinesLF.go s cur).flatten = cur.reverse ++ s := by
  induction s generalizing cur with
  | nil =>
    unfold readlinesLF.go
    split <;> simp_all
  | cons c cs ih =>
    unfold readlinesLF.go
    split
    · simp [ih]
    · rw [ih]; simp

/-- `"".join(io.StringIO(t).readlines()) == t` -/
theorem readlinesLF_flatten (s : List Char) : (readlinesLF s).flatten = s := by
  simp [readlinesLF, readlinesLF_go_flatten]

/-! ### one output line per input line, in order -/

theorem anonymizeLines_length (p : Pipeline) (lines : List (List Char)) :
    ∀ lk outs lk' logs, anonymizeLines p lk lines = .ok (outs, lk', logs) → outs.length = lines.length := by
  induction lines with
  | nil => intro lk outs lk' logs h; simp [anonymizeLines] at h; simp [h.1]
  | cons l ls ih =>
    intro lk outs lk' logs h
    simp only [anonymizeLines] at h
    cases h1 : lineStep p lk l with
    | error e => simp [h1] at h
    | ok r =>
      obtain ⟨o, lk1, lg1⟩ := r
      simp only [h1] at h
      cases h2 : anonymizeLines p lk1 ls with
      | error e => simp [h2] at h
      | ok r2 =>
        obtain ⟨os, lk2, lg2⟩ := r2
        simp only [h2] at h
        simp at h
        rw [← h.1]
        simp [ih lk1 os lk2 lg2 h2]

/-- processing a text in two parts (two calls, the lookup table carried over) gives the same lines
as processing it in one go: each output line is a function of its input line and of the table
state before it -/
theorem anonymizeLines_append (p : Pipeline) (a b : List (List Char)) :
    ∀ lk, anonymizeLines p lk (a ++ b) =
      (match anonymizeLines p lk a with
       | .error e => .error e
       | .ok (o1, lk1, g1) =>
         match anonymizeLines p lk1 b with
         | .error e => .error e
         | .ok (o2, lk2, g2) => .ok (o1 ++ o2, lk2, g1 ++ g2)) := by
  induction a with
  | nil =>
    intro lk
    simp only [List.nil_append, anonymizeLines]
    cases anonymizeLines p lk b with
    | error e => rfl
    | ok r => obtain ⟨o, l, g⟩ := r; simp
  | cons x xs ih =>
    intro lk
    simp only [List.cons_append, anonymizeLines]
    cases h1 : lineStep p lk x with
    | error e => rfl
    | ok r =>
      obtain ⟨o, lk1, lg1⟩ := r
      simp only
      rw [ih lk1]
      cases h2 : anonymizeLines p lk1 xs with
      | error e => rfl
      | ok r2 =>
        obtain ⟨os, lk2, lg2⟩ := r2
        simp only
        cases h3 : anonymizeLines p lk2 b with
        | error e => rfl
        | ok r3 => obtain ⟨o3, lk3, lg3⟩ := r3; simp [List.append_assoc]

/-- without secret anonymization there is no cross-line state at all: the lookup table is returned
untouched, no log record is produced and the output line does not depend on the table -/
theorem lineStep_stateless (p : Pipeline) (hs : p.secrets = none) (lk : Lookup) (line : List Char) :
    lineStep p lk line = (pureStages p line).map (fun o => (o, lk, [])) := by
  unfold lineStep secretStage
  simp only [hs]
  cases pureStages p line <;> rfl

end Lines
end Netconan
