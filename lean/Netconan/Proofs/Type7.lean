import Netconan.Model.Decoders
/-! Cisco type 7: the replacement decodes back to the pseudonym (the encoding is an involutive XOR
with a key stream, written as two hex digits per character after the two-digit salt). -/
namespace Netconan
namespace Secrets

def type7EncodeBody (salt : Nat) : Nat → List Char → List Char
  | _, [] => []
  | i, c :: cs =>
    let k := (type7Key.getD ((salt + i) % type7Key.length) 'x').toNat
    let v := c.toNat ^^^ k
    hexDigitU (v / 16 % 16) :: hexDigitU (v % 16) :: type7EncodeBody salt (i + 1) cs

theorem hexPair : ∀ v, v < 256 → hexValU (hexDigitU (v / 16 % 16)) * 16 + hexValU (hexDigitU (v % 16)) = v := by decide +kernel

theorem key_lt (n : Nat) : (type7Key.getD n 'x').toNat < 128 := by
  have : ∀ i, i < 60 → (type7Key.getD i 'x').toNat < 128 := by decide +kernel
  by_cases h : n < 60
  · exact this n h
  · have hl : type7Key.length = 53 := by decide
    rw [List.getD_eq_getElem?_getD, List.getElem?_eq_none (by omega)]
    decide

theorem xor_lt_256 (a b : Nat) (ha : a < 256) (hb : b < 128) : a ^^^ b < 256 :=
  Nat.xor_lt_two_pow (n := 8) ha (by omega)

theorem decode_encode_body (salt : Nat) (txt : List Char) (h : ∀ c ∈ txt, c.toNat < 128) :
    ∀ i, type7DecodeBody salt i (type7EncodeBody salt i txt) = txt := by
  induction txt with
  | nil => intro i; rfl
  | cons c cs ih =>
    intro i
    have hc : c.toNat < 128 := h c (by simp)
    have hk := key_lt ((salt + i) % type7Key.length)
    have hv := xor_lt_256 c.toNat _ (by omega) hk
    simp only [type7EncodeBody, type7DecodeBody]
    rw [hexPair _ hv, Nat.xor_assoc, Nat.xor_self, Nat.xor_zero, ih (fun d hd => h d (by simp [hd]))]
    simp

theorem zipIdx_encode (salt : Nat) (txt : List Char) : ∀ i,
    ((txt.zipIdx i).map (fun (c, j) =>
      let k := (type7Key.getD ((salt + j) % type7Key.length) 'x').toNat
      let v := c.toNat ^^^ k
      [hexDigitU (v / 16 % 16), hexDigitU (v % 16)])).flatten = type7EncodeBody salt i txt := by
  induction txt with
  | nil => intro i; rfl
  | cons c cs ih =>
    intro i
    rw [List.zipIdx_cons]
    simp only [List.map_cons, List.flatten_cons, type7EncodeBody]
    rw [ih (i + 1)]
    rfl

/-- **the type-7 replacement (static salt 9) decodes to the text it encodes**, for every ASCII text –
in particular for every pseudonym -/
theorem type7_roundtrip (txt : List Char) (h : ∀ c ∈ txt, c.toNat < 128) : type7Decode (type7 9 txt) = txt := by
  unfold type7
  have := zipIdx_encode 9 txt 0
  simp only at this
  rw [this]
  show type7DecodeBody _ 0 (type7EncodeBody 9 0 txt) = txt
  exact decode_encode_body 9 txt h 0

end Secrets
end Netconan
