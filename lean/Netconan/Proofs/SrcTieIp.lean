import Netconan.Generated.SrcIp
/-!
# The translated source is the hand-written model (address core)

`Generated/SrcIp.lean` is produced on every run from the text of netconan's functions by `harness/py2lean.py`.
Each theorem here states that a translated function computes what the corresponding function of `Model/*.lean`
computes - for every argument and every cache state - so that the theorems of `Props/` (which are about the
model) are theorems about the source as it reads now.  When the source changes, these are the obligations that
have to be re-proved.
-/
namespace Netconan.SrcTie
open Netconan Netconan.Generated

/-! ## `_is_mask` -/
theorem is_mask_tie : Src.is_mask = Mask.isMask := rfl

/-! ## `should_anonymize` (both classes) -/
theorem should_anonymize_tie (nets : List Mask.Net) (x : Nat) : Src.should_anonymize nets x = Mask.shouldAnonymize nets x := rfl
theorem should_anonymize6_tie (x : Nat) : Src.should_anonymize6 x = true := rfl

/-! ## `_anonymize_bits`, `anonymize`, `_deanonymize_bits`, `deanonymize` -/

theorem anonymize_bits_rev (h) (rb : List Bool) (c : IpCore.Cache) :
    Src.anonymize_bits h (rb.length + 1) rb.reverse c = IpCore.anonRevM h rb c := by
  induction rb generalizing c with
  | nil =>
    simp only [Src.anonymize_bits, IpCore.anonRevM, List.reverse_nil, Py.bind_apply, Py.cache_apply]
    cases hg : IpCore.get c [] <;> simp [Py.lastBit]
  | cons last rh ih =>
    simp only [List.length_cons, List.reverse_cons]
    unfold Src.anonymize_bits IpCore.anonRevM
    simp only [Py.bind_apply, Py.cache_apply]
    cases hg : IpCore.get c (rh.reverse ++ [last]) with
    | some r => simp
    | none =>
      have := ih c
      simp only [List.length_reverse] at this ⊢
      simp [Py.lastBit, this]
      cases hr : IpCore.anonRevM h rh c with
      | error e => simp
      | ok p =>
        obtain ⟨r, c1⟩ := p
        simp [Py.cachePut]
        cases hp : IpCore.put c1 (rh.reverse ++ [last]) (r ++ [h rh.reverse ^^ last]) <;> simp

/-- the translated `_anonymize_bits` (fuel = length + 1) is the model's, on every cache -/
theorem anonymize_bits_tie (h) (bits : Bits) (c : IpCore.Cache) :
    Src.anonymize_bits h (bits.length + 1) bits c = IpCore.anonBitsM h bits c := by
  have := anonymize_bits_rev h bits.reverse c
  simpa [IpCore.anonBitsM] using this

theorem deanonymize_bits_rev (h) (rb : List Bool) (c : IpCore.Cache) :
    Src.deanonymize_bits h (rb.length + 1) rb.reverse c = IpCore.deanonRevM h rb c := by
  induction rb generalizing c with
  | nil =>
    simp only [Src.deanonymize_bits, IpCore.deanonRevM, List.reverse_nil, Py.bind_apply, Py.cache_apply]
    cases hg : IpCore.getInv c [] <;> simp [Py.lastBit]
  | cons last rh ih =>
    simp only [List.length_cons, List.reverse_cons]
    unfold Src.deanonymize_bits IpCore.deanonRevM
    simp only [Py.bind_apply, Py.cache_apply]
    cases hg : IpCore.getInv c (rh.reverse ++ [last]) with
    | some r => simp
    | none =>
      have := ih c
      simp only [List.length_reverse] at this ⊢
      simp [Py.lastBit, this]
      cases hr : IpCore.deanonRevM h rh c with
      | error e => simp
      | ok p =>
        obtain ⟨r, c1⟩ := p
        simp [Py.cachePutInv]
        cases hp : IpCore.putInv c1 (rh.reverse ++ [last]) (r ++ [h r ^^ last]) <;> simp

theorem deanonymize_bits_tie (h) (bits : Bits) (c : IpCore.Cache) :
    Src.deanonymize_bits h (bits.length + 1) bits c = IpCore.deanonBitsM h bits c := by
  have := deanonymize_bits_rev h bits.reverse c
  simpa [IpCore.deanonBitsM] using this

/-- **the translated `anonymize` is one `anon` request of the model's memo machine** -/
theorem anonymize_tie (h) (L B n : Nat) (c : IpCore.Cache) :
    Src.anonymize h L B n c = IpCore.step h L B c (.anon n) := by
  unfold Src.anonymize IpCore.step IpCore.anonymizeM
  simp only [Py.bind_apply, Py.sliceToNeg, Py.sliceFromNeg]
  by_cases hB : (B == 0) = true
  · simp only [hB, Bool.false_eq_true, ↓reduceIte, Py.bind_apply]
    rw [anonymize_bits_tie]
    cases IpCore.anonBitsM h (IpCore.fmt L n) c <;> simp
  · simp only [hB, Bool.false_eq_true, ↓reduceIte, Py.bind_apply]
    rw [anonymize_bits_tie]
    cases IpCore.anonBitsM h (List.take ((IpCore.fmt L n).length - B) (IpCore.fmt L n)) c with
    | error e => simp
    | ok p =>
      obtain ⟨r, c1⟩ := p
      simp [Py.cachePut]
      cases IpCore.put c1 (IpCore.fmt L n) (r ++ List.drop ((IpCore.fmt L n).length - B) (IpCore.fmt L n)) <;> simp

/-- **the translated `deanonymize` is one `deanon` request of the model's memo machine** -/
theorem deanonymize_tie (h) (L B n : Nat) (c : IpCore.Cache) :
    Src.deanonymize h L B n c = IpCore.step h L B c (.deanon n) := by
  unfold Src.deanonymize IpCore.step IpCore.deanonymizeM
  simp only [Py.bind_apply, Py.sliceToNeg, Py.sliceFromNeg]
  by_cases hB : (B == 0) = true
  · simp only [hB, Bool.false_eq_true, ↓reduceIte, Py.bind_apply]
    rw [deanonymize_bits_tie]
    cases IpCore.deanonBitsM h (IpCore.fmt L n) c <;> simp
  · simp only [hB, Bool.false_eq_true, ↓reduceIte, Py.bind_apply]
    rw [deanonymize_bits_tie]
    cases IpCore.deanonBitsM h (List.take ((IpCore.fmt L n).length - B) (IpCore.fmt L n)) c with
    | error e => simp
    | ok p => obtain ⟨r, c1⟩ := p; simp

/-- a request of a history, on the translated functions -/
def srcStep (h : Bits → Bool) (L B : Nat) (c : IpCore.Cache) : IpCore.Op → Except Err (Nat × IpCore.Cache)
  | .anon n => Src.anonymize h L B n c
  | .deanon n => Src.deanonymize h L B n c

theorem srcStep_tie (h) (L B : Nat) (c : IpCore.Cache) (op : IpCore.Op) :
    srcStep h L B c op = IpCore.step h L B c op := by
  cases op <;> simp [srcStep, anonymize_tie, deanonymize_tie]

/-- a whole history of requests on the translated functions -/
def srcRun (h : Bits → Bool) (L B : Nat) : IpCore.Cache → List IpCore.Op → Except Err (List Nat × IpCore.Cache)
  | c, [] => .ok ([], c)
  | c, op :: ops => match srcStep h L B c op with
    | .error e => .error e
    | .ok (r, c1) => match srcRun h L B c1 ops with
      | .error e => .error e
      | .ok (rs, c2) => .ok (r :: rs, c2)

/-- **every history of `anonymize` / `deanonymize` calls of the translated source is a history of the model** -/
theorem srcRun_tie (h) (L B : Nat) (c : IpCore.Cache) (ops : List IpCore.Op) :
    srcRun h L B c ops = IpCore.run h L B c ops := by
  induction ops generalizing c with
  | nil => rfl
  | cons op ops ih =>
    simp only [srcRun, IpCore.run, srcStep_tie]
    cases IpCore.step h L B c op with
    | error e => rfl
    | ok p => obtain ⟨r, c1⟩ := p; simp only [ih]; rfl

/-! ## the seeding loop of `IpAnonymizer.__init__` -/

/-- a `for` loop without `return` and without loop-carried variables, whose body acts on the cache as `step`, is
`foldlM step` followed by the rest of the function -/
theorem forLoop_fold {α ρ : Type} (xs : List α) (body : α → Unit → Py.M (Sum ρ Unit))
    (step : IpCore.Cache → α → Except Err IpCore.Cache)
    (hbody : ∀ x c, body x () c = (match step c x with | .error e => .error e | .ok c' => .ok (Sum.inr (), c')))
    (k : Unit → Py.M ρ) (c : IpCore.Cache) :
    Py.forLoop (m := Py.M) xs () body k c
    = (match xs.foldlM step c with
       | .error e => .error e
       | .ok c' => k () c') := by
  induction xs generalizing c with
  | nil => simp [Py.forLoop, List.foldlM, pure, Except.pure]
  | cons x xs ih =>
    simp only [Py.forLoop, List.foldlM, Py.bind_apply, hbody]
    cases h1 : step c x with
    | error e => rfl
    | ok c1 => exact ih c1

/-- **the translated seeding loop is the model's `foldlM seedPrefix`** on every starting cache -/
theorem seed_loop_tie (pins : List Bits) (c : IpCore.Cache) :
    Src.seed_loop pins c = (match pins.foldlM IpCore.seedPrefix c with
      | .error e => .error e
      | .ok c' => .ok ((), c')) := by
  unfold Src.seed_loop
  refine forLoop_fold pins _ IpCore.seedPrefix ?_ _ c
  intro p c
  simp only []
  rw [forLoop_fold (List.range (List.length p)) _ (fun c i => do
      let c ← IpCore.put c (p.take i ++ [false]) (p.take i ++ [false])
      IpCore.put c (p.take i ++ [true]) (p.take i ++ [true]))]
  · unfold IpCore.seedPrefix
    cases (List.range p.length).foldlM (fun c i => do
      let c ← IpCore.put c (p.take i ++ [false]) (p.take i ++ [false])
      IpCore.put c (p.take i ++ [true]) (p.take i ++ [true])) c <;> rfl
  · intro i c
    simp only [Py.bind_apply, Py.cachePut]
    cases IpCore.put c (List.take i p ++ [false]) (List.take i p ++ [false]) with
    | error e => rfl
    | ok c1 =>
      simp only [bind, Except.bind]
      cases IpCore.put c1 (List.take i p ++ [true]) (List.take i p ++ [true]) <;> rfl

/-- the constructor's memo: `bidict({"": ""})` and the translated seeding loop give `IpCore.seed` -/
theorem seed_tie (pins : List Bits) :
    Src.seed_loop pins [([], [])] = (match IpCore.seed pins with
      | .error e => .error e
      | .ok c' => .ok ((), c')) := seed_loop_tie pins _

/-! ## `dump_to_file` -/

theorem forLoop_append_map {α β ρ : Type} (xs : List α) (acc : List β) (g : α → β)
    (body : α → List β → Id (Sum ρ (List β))) (hbody : ∀ x a, body x a = pure (Sum.inr (a ++ [g x]))) (k : List β → Id ρ) :
    Py.forLoop (m := Id) xs acc body k = k (acc ++ xs.map g) := by
  induction xs generalizing acc with
  | nil => simp [Py.forLoop]
  | cons x xs ih =>
    simp only [Py.forLoop, hbody, List.map_cons]
    show Py.forLoop xs _ _ _ = _
    rw [ih, List.append_assoc]
    rfl

/-- **`dump_to_file` as written in the source lists exactly the full-length entries of the memo** (`IpCore.dump`), each as the pair
(address, image) -/
theorem dump_to_file_tie (L : Nat) (c : IpCore.Cache) :
    Src.dump_to_file L c = (IpCore.dump L c).map (fun e => (IpCore.ofBits e.1, IpCore.ofBits e.2)) := by
  unfold Src.dump_to_file IpCore.dump
  show Py.forLoop _ _ _ _ = _
  rw [forLoop_append_map _ [] (fun (e : Bits × Bits) => (IpCore.ofBits e.1, IpCore.ofBits e.2))]
  · simp only [List.nil_append]
    show List.map _ (List.map _ (List.filter _ c)) = _
    rw [List.map_map]
    congr 1
  · intro x a; obtain ⟨b1, b2⟩ := x; rfl

end Netconan.SrcTie
