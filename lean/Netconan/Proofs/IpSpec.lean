import Netconan.Spec.Ip
/-! Lemmas about the pure prefix-preserving map. -/
namespace Netconan
namespace Spec

theorem anonFrom_length (g) (pre bs : Bits) : (anonFrom g pre bs).length = bs.length := by
  induction bs generalizing pre with
  | nil => rfl
  | cons x xs ih => simp [anonFrom, ih]

theorem deanonFrom_length (g) (pre bs : Bits) : (deanonFrom g pre bs).length = bs.length := by
  induction bs generalizing pre with
  | nil => rfl
  | cons x xs ih => simp [deanonFrom, ih]

theorem cpl_anonFrom (g) (pre a b : Bits) :
    cpl (anonFrom g pre a) (anonFrom g pre b) = cpl a b := by
  induction a generalizing pre b with
  | nil => cases b <;> simp [anonFrom, cpl]
  | cons x xs ih =>
    cases b with
    | nil => simp [anonFrom, cpl]
    | cons y ys =>
      simp only [anonFrom, cpl]
      by_cases h : x = y
      · subst h; simp [ih]
      · have : (x ^^ g pre) ≠ (y ^^ g pre) := by
          cases x <;> cases y <;> cases g pre <;> simp_all
        simp [h, this]

theorem deanon_anon (g) (pre a : Bits) : deanonFrom g pre (anonFrom g pre a) = a := by
  induction a generalizing pre with
  | nil => rfl
  | cons x xs ih => simp [anonFrom, deanonFrom, ih]

theorem anon_deanon (g) (pre a : Bits) : anonFrom g pre (deanonFrom g pre a) = a := by
  induction a generalizing pre with
  | nil => rfl
  | cons x xs ih => simp [anonFrom, deanonFrom, ih]

theorem anonFrom_snoc (g : Bits → Bool) (pre b : Bits) (x : Bool) :
    anonFrom g pre (b ++ [x]) = anonFrom g pre b ++ [x ^^ g (pre ++ b)] := by
  induction b generalizing pre with
  | nil => simp [anonFrom]
  | cons y ys ih => simp [anonFrom, ih]

theorem anonFrom_append (g : Bits → Bool) (pre a b : Bits) :
    anonFrom g pre (a ++ b) = anonFrom g pre a ++ anonFrom g (pre ++ a) b := by
  induction a generalizing pre with
  | nil => simp [anonFrom]
  | cons y ys ih => simp [anonFrom, ih]

theorem deanonFrom_snoc (g : Bits → Bool) (pre b : Bits) (y : Bool) :
    deanonFrom g pre (b ++ [y]) =
      deanonFrom g pre b ++ [y ^^ g (pre ++ deanonFrom g pre b)] := by
  induction b generalizing pre with
  | nil => simp [deanonFrom]
  | cons z zs ih => simp [deanonFrom, ih]

/-- cpl facts -/
theorem cpl_self (a : Bits) : cpl a a = a.length := by
  induction a with
  | nil => rfl
  | cons x xs ih => simp [cpl, ih]

theorem cpl_le_left (a b : Bits) : cpl a b ≤ a.length := by
  induction a generalizing b with
  | nil => cases b <;> simp [cpl]
  | cons x xs ih =>
    cases b with
    | nil => simp [cpl]
    | cons y ys => simp only [cpl]; split <;> simp [ih ys]

theorem eq_of_cpl_eq_length {a b : Bits} (hl : a.length = b.length) (h : cpl a b = a.length) : a = b := by
  induction a generalizing b with
  | nil => cases b <;> simp_all
  | cons x xs ih =>
    cases b with
    | nil => simp at hl
    | cons y ys =>
      simp only [cpl] at h
      by_cases hxy : x = y
      · subst hxy
        simp at h hl
        rw [ih hl h]
      · simp [hxy] at h

theorem cpl_append_left (p a b : Bits) : cpl (p ++ a) (p ++ b) = p.length + cpl a b := by
  induction p with
  | nil => simp
  | cons x xs ih => simp [cpl, ih]; omega

/-- `p` is a prefix of `a` iff their common prefix has the length of `p`. -/
theorem prefix_iff_cpl (p a : Bits) : p <+: a ↔ cpl p a = p.length := by
  induction p generalizing a with
  | nil => cases a <;> simp [cpl]
  | cons x xs ih =>
    cases a with
    | nil => simp [cpl]
    | cons y ys =>
      simp only [cpl, List.cons_prefix_cons]
      by_cases hxy : x = y
      · subst hxy; simp [ih ys]
      · simp [hxy]

theorem snocInd {motive : Bits → Prop} (nil : motive [])
    (snoc : ∀ b x, motive b → motive (b ++ [x])) (b : Bits) : motive b := by
  have : ∀ n (b : Bits), b.length = n → motive b := by
    intro n
    induction n with
    | zero => intro b hb; simp at hb; subst hb; exact nil
    | succ n ih =>
      intro b hb
      have hne : b ≠ [] := by intro h; simp [h] at hb
      have := List.dropLast_concat_getLast hne
      rw [← this]
      apply snoc
      apply ih
      simp [List.length_dropLast, hb]
  exact this _ b rfl

/-! ### pinned nodes -/
section pins
variable (h : Bits → Bool) (pins : List Bits)

theorem pinned_nil : pinned pins [] = true := by simp [pinned]

theorem pinned_snoc_iff (b : Bits) (x : Bool) :
    pinned pins (b ++ [x]) = true ↔ ∃ p ∈ pins, b.length < p.length ∧ b = p.take b.length := by
  simp [pinned]
  constructor
  · rintro ⟨p, hp, h1, h2⟩; exact ⟨p, hp, by omega, h2⟩
  · rintro ⟨p, hp, h1, h2⟩; exact ⟨p, hp, by omega, h2⟩

theorem pinned_sib (b : Bits) (x : Bool) (hb : pinned pins (b ++ [x]) = true) :
    pinned pins (b ++ [!x]) = true := by
  rw [pinned_snoc_iff] at hb ⊢; exact hb

theorem pinned_par (b : Bits) (x : Bool) (hb : pinned pins (b ++ [x]) = true) :
    pinned pins b = true := by
  rw [pinned_snoc_iff] at hb
  obtain ⟨p, hp, hl, he⟩ := hb
  induction b using snocInd with
  | nil => exact pinned_nil pins
  | snoc b' y _ =>
    rw [pinned_snoc_iff]
    refine ⟨p, hp, by simp at hl; omega, ?_⟩
    have := congrArg (List.take b'.length) he
    simp at this
    rw [this, List.take_take]
    simp

theorem F_snoc (b : Bits) (x : Bool) : F h pins (b ++ [x]) = F h pins b ++ [x ^^ flip h pins b] := by
  simp [F, anonFrom_snoc]

theorem G_snoc (b : Bits) (y : Bool) :
    G h pins (b ++ [y]) = G h pins b ++ [y ^^ flip h pins (G h pins b)] := by
  simp [G, deanonFrom_snoc]

theorem F_length (b : Bits) : (F h pins b).length = b.length := by simp [F, anonFrom_length]
theorem G_length (b : Bits) : (G h pins b).length = b.length := by simp [G, deanonFrom_length]
theorem G_F (b : Bits) : G h pins (F h pins b) = b := by simp [F, G, deanon_anon]
theorem F_G (b : Bits) : F h pins (G h pins b) = b := by simp [F, G, anon_deanon]

theorem F_inj {a b : Bits} (hab : F h pins a = F h pins b) : a = b := by
  have := congrArg (G h pins) hab
  simpa [G_F] using this

theorem F_nil : F h pins [] = [] := rfl
theorem G_nil : G h pins [] = [] := rfl

/-- `F` fixes every pinned node. -/
theorem F_pinned (b : Bits) (hb : pinned pins b = true) : F h pins b = b := by
  induction b using snocInd with
  | nil => rfl
  | snoc b x ih =>
    have hpar := pinned_par pins b x hb
    have : pinned pins (b ++ [false]) = true := by
      cases x with
      | false => exact hb
      | true => simpa using pinned_sib pins b true hb
    simp [F_snoc, ih hpar, flip, this]

theorem G_pinned (b : Bits) (hb : pinned pins b = true) : G h pins b = b := by
  have := congrArg (G h pins) (F_pinned h pins b hb)
  rw [G_F] at this; exact this.symm

/-- Every preserved prefix and each of its prefixes is fixed by `F`. -/
theorem F_take_pin (p : Bits) (hp : p ∈ pins) (i : Nat) : F h pins (p.take i) = p.take i := by
  apply F_pinned
  induction hq : p.take i using snocInd with
  | nil => exact pinned_nil pins
  | snoc b x _ =>
    rw [pinned_snoc_iff]
    have hl : (p.take i).length = b.length + 1 := by rw [hq]; simp
    rw [List.length_take] at hl
    refine ⟨p, hp, by omega, ?_⟩
    have h2 : (p.take i).take b.length = b := by rw [hq]; simp
    rw [List.take_take, Nat.min_eq_left (by omega)] at h2
    exact h2.symm

theorem cpl_F (a b : Bits) : cpl (F h pins a) (F h pins b) = cpl a b := cpl_anonFrom _ _ _ _

theorem F_append (a b : Bits) :
    F h pins (a ++ b) = F h pins a ++ anonFrom (flip h pins) a b := by
  simp [F, anonFrom_append]

/-- prefix preservation for a pinned prefix: inside stays inside, outside stays outside -/
theorem F_prefix_iff (p : Bits) (hp : p ∈ pins) (a : Bits) : p <+: F h pins a ↔ p <+: a := by
  have hfix : F h pins p = p := by simpa using F_take_pin h pins p hp p.length
  rw [prefix_iff_cpl, prefix_iff_cpl]
  conv => lhs; rw [← hfix, cpl_F, F_length]

end pins

/-! ### whole addresses -/
section full
variable (h : Bits → Bool) (pins : List Bits) (L B : Nat)

theorem Ffull_length (a : Bits) : (Ffull h pins L B a).length = a.length := by
  simp [Ffull, F_length]; omega

theorem Gfull_length (a : Bits) : (Gfull h pins L B a).length = a.length := by
  simp [Gfull, G_length]; omega

theorem take_Ffull (a : Bits) :
    (Ffull h pins L B a).take (L - B) = F h pins (a.take (L - B)) := by
  unfold Ffull
  by_cases hl : L - B ≤ a.length
  · rw [List.take_append_of_le_length (by simp [F_length]; omega)]
    rw [List.take_of_length_le (by simp [F_length]; omega)]
  · have h1 : a.drop (L - B) = [] := List.drop_of_length_le (by omega)
    rw [h1, List.append_nil, List.take_of_length_le (by simp [F_length]; omega)]

theorem drop_Ffull (a : Bits) : (Ffull h pins L B a).drop (L - B) = a.drop (L - B) := by
  unfold Ffull
  by_cases hl : L - B ≤ a.length
  · rw [List.drop_append_of_le_length (by simp [F_length]; omega)]
    have : (F h pins (List.take (L - B) a)).length = L - B := by simp [F_length]; omega
    rw [List.drop_of_length_le (by omega)]; simp
  · have h1 : a.drop (L - B) = [] := List.drop_of_length_le (by omega)
    rw [h1]; simp [F_length]; omega

theorem take_Gfull (a : Bits) :
    (Gfull h pins L B a).take (L - B) = G h pins (a.take (L - B)) := by
  unfold Gfull
  by_cases hl : L - B ≤ a.length
  · rw [List.take_append_of_le_length (by simp [G_length]; omega)]
    rw [List.take_of_length_le (by simp [G_length]; omega)]
  · have h1 : a.drop (L - B) = [] := List.drop_of_length_le (by omega)
    rw [h1, List.append_nil, List.take_of_length_le (by simp [G_length]; omega)]

theorem drop_Gfull (a : Bits) : (Gfull h pins L B a).drop (L - B) = a.drop (L - B) := by
  unfold Gfull
  by_cases hl : L - B ≤ a.length
  · rw [List.drop_append_of_le_length (by simp [G_length]; omega)]
    have : (G h pins (List.take (L - B) a)).length = L - B := by simp [G_length]; omega
    rw [List.drop_of_length_le (by omega)]; simp
  · have h1 : a.drop (L - B) = [] := List.drop_of_length_le (by omega)
    rw [h1]; simp [G_length]; omega

theorem Gfull_Ffull (a : Bits) : Gfull h pins L B (Ffull h pins L B a) = a := by
  unfold Gfull
  rw [take_Ffull, drop_Ffull, G_F, List.take_append_drop]

theorem Ffull_Gfull (a : Bits) : Ffull h pins L B (Gfull h pins L B a) = a := by
  unfold Ffull
  rw [take_Gfull, drop_Gfull, F_G, List.take_append_drop]

theorem Ffull_inj {a b : Bits} (hab : Ffull h pins L B a = Ffull h pins L B b) : a = b := by
  have := congrArg (Gfull h pins L B) hab
  simpa [Gfull_Ffull] using this

/-! `Ffull` is itself a prefix-preserving walk: flips stop below depth `L - B`. -/

theorem anonFrom_congr (g g' : Bits → Bool) (pre bs : Bits)
    (hgg : ∀ q, pre.length ≤ q.length → q.length < pre.length + bs.length → g q = g' q) :
    anonFrom g pre bs = anonFrom g' pre bs := by
  induction bs generalizing pre with
  | nil => rfl
  | cons x xs ih =>
    simp only [anonFrom]
    rw [hgg pre (Nat.le_refl _) (by simp), ih]
    intro q h1 h2
    apply hgg q <;> simp at * <;> omega

theorem anonFrom_id (g : Bits → Bool) (pre bs : Bits)
    (hg : ∀ q, pre.length ≤ q.length → g q = false) : anonFrom g pre bs = bs := by
  induction bs generalizing pre with
  | nil => rfl
  | cons x xs ih =>
    simp only [anonFrom]
    rw [hg pre (Nat.le_refl _), ih]
    · simp
    · intro q h1; apply hg q; simp at h1; omega

/-- the flip function of the whole-address map -/
def flipFull (pre : Bits) : Bool := if pre.length < L - B then flip h pins pre else false

theorem Ffull_eq_anonFrom (a : Bits) : Ffull h pins L B a = anonFrom (flipFull h pins L B) [] a := by
  conv => rhs; rw [← List.take_append_drop (L - B) a]
  rw [anonFrom_append]
  unfold Ffull F
  congr 1
  · apply anonFrom_congr
    intro q _ h2
    simp [List.length_take] at h2
    simp [flipFull]; omega
  · by_cases hl : L - B ≤ a.length
    · rw [anonFrom_id]
      intro q hq
      simp [List.length_take, Nat.min_eq_left hl] at hq
      simp [flipFull]; omega
    · rw [List.drop_of_length_le (by omega)]; rfl

/-- **Common-prefix length is preserved** by the whole-address map, for arbitrary bit lists. -/
theorem cpl_Ffull (a b : Bits) : cpl (Ffull h pins L B a) (Ffull h pins L B b) = cpl a b := by
  rw [Ffull_eq_anonFrom, Ffull_eq_anonFrom, cpl_anonFrom]

theorem Ffull_pin (p : Bits) (hp : p ∈ pins) : Ffull h pins L B p = p := by
  unfold Ffull
  rw [F_take_pin h pins p hp, List.take_append_drop]

/-- inside a preserved prefix stays inside, outside stays outside – also for prefixes that
reach into the preserved host bits -/
theorem Ffull_prefix_iff (p : Bits) (hp : p ∈ pins) (a : Bits) :
    p <+: Ffull h pins L B a ↔ p <+: a := by
  rw [prefix_iff_cpl, prefix_iff_cpl]
  conv => lhs; rw [← Ffull_pin h pins L B p hp, cpl_Ffull, Ffull_pin h pins L B p hp]

theorem Gfull_prefix_iff (p : Bits) (hp : p ∈ pins) (a : Bits) :
    p <+: Gfull h pins L B a ↔ p <+: a := by
  conv => rhs; rw [← Ffull_Gfull h pins L B a]
  exact (Ffull_prefix_iff h pins L B p hp _).symm

end full
end Spec
end Netconan
