import Netconan.Generated.SrcFull
import Netconan.Proofs.SrcTieText
import Netconan.Proofs.SrcTieSecrets
import Netconan.Proofs.SrcTieWords
/-!
# The per-line loop body of `anonymize_io` with all of its state is the pure pipeline step

`Generated/SrcFull.lean` is the loop body of `FileAnonymizer.anonymize_io` translated from the source with its *stateful* stages: the
translated `replace_matching_item` on the lookup table and the translated `anonymize_ip_addr` (memoising) on the IPv6 and the IPv4
memo.  On every state whose memos satisfy the invariant of the refinement proof (every state reachable from the constructors) it
returns what the pure model step `Lines.lineStep` returns, leaves the lookup table as the model says, and keeps the invariants.
-/
namespace Netconan.SrcTie
open Netconan Netconan.Generated Netconan.Lines Netconan.Py Netconan.IpCore

/-- the memos of a state fit the pipeline's address configurations -/
def Good (p : Pipeline) (s : FaState) : Prop :=
  (∀ c, p.ip6 = some c → Inv c.h c.pins c.L c.B s.c6) ∧ (∀ c, p.ip4 = some c → Inv c.h c.pins c.L c.B s.c4)

theorem secret_stage_S (p : Pipeline) (line : List Char) (s : FaState) :
    secretStageS p line s = (match secretStage p s.lk line with
      | .error e => .error e
      | .ok (o, lk', logs) => .ok ((o, logs), { s with lk := lk' })) := by
  unfold secretStageS secretStage
  cases hs : p.secrets with
  | none => rfl
  | some sc =>
    simp only [liftL, replace_matching_item_tie]
    cases Secrets.replaceMatchingItem p.ext sc.formats sc.groups p.salt line s.lk with
    | error e => rfl
    | ok r => obtain ⟨o, l, g⟩ := r; rfl

theorem ip6_stage_S (c : IpText.IpCfg) (undo : Bool) (line : List Char) (s : FaState) (hI : Inv c.h c.pins c.L c.B s.c6) :
    ∃ c6', Inv c.h c.pins c.L c.B c6' ∧
      ipStage6S c undo line s = (match liftRes (IpText.anonIpLine c undo line) with
        | .error e => .error e
        | .ok o => .ok (o, { s with c6 := c6' })) := by
  obtain ⟨c', h1, hI'⟩ := anonymize_ip_addr_spec c undo line s.c6 hI
  refine ⟨c', hI', ?_⟩
  unfold ipStage6S
  simp only [sbind_apply, liftC6, h1, resS, liftRes]
  cases IpText.anonIpLine c undo line <;> rfl

theorem ip4_stage_S (c : IpText.IpCfg) (undo : Bool) (line : List Char) (s : FaState) (hI : Inv c.h c.pins c.L c.B s.c4) :
    ∃ c4', Inv c.h c.pins c.L c.B c4' ∧
      ipStage4S c undo line s = (match liftRes (IpText.anonIpLine c undo line) with
        | .error e => .error e
        | .ok o => .ok (o, { s with c4 := c4' })) := by
  obtain ⟨c', h1, hI'⟩ := anonymize_ip_addr_spec c undo line s.c4 hI
  refine ⟨c', hI', ?_⟩
  unfold ipStage4S
  simp only [sbind_apply, liftC4, h1, resS, liftRes]
  cases IpText.anonIpLine c undo line <;> rfl

/-- the optional IPv6 stage in the whole-state monad -/
theorem opt6_S (p : Pipeline) (l : List Char) (s : FaState) (hg : Good p s) :
    ∃ s6 : FaState, Good p s6 ∧ s6.lk = s.lk ∧
      (Py.optCase p.ip6 (fun a => S.bind (ipStage6S a p.undo l) (fun x => S.pure x)) (S.pure l) s
       = (match ip6Stage p l with
          | .error e => .error e
          | .ok o => .ok (o, s6))) := by
  unfold ip6Stage
  cases h : p.ip6 with
  | none => exact ⟨s, hg, rfl, rfl⟩
  | some c =>
    obtain ⟨c6', hI', he⟩ := ip6_stage_S c p.undo l s (hg.1 c h)
    refine ⟨{ s with c6 := c6' }, ⟨fun c0 hc0 => ?_, hg.2⟩, rfl, ?_⟩
    · rw [h] at hc0; cases hc0; exact hI'
    · simp only [Py.optCase_some, smbind_apply, he, optStage]
      cases liftRes (IpText.anonIpLine c p.undo l) <;> rfl

/-- the optional IPv4 stage in the whole-state monad -/
theorem opt4_S (p : Pipeline) (l : List Char) (s : FaState) (hg : Good p s) :
    ∃ s4 : FaState, Good p s4 ∧ s4.lk = s.lk ∧
      (Py.optCase p.ip4 (fun a => S.bind (ipStage4S a p.undo l) (fun x => S.pure x)) (S.pure l) s
       = (match ip4Stage p l with
          | .error e => .error e
          | .ok o => .ok (o, s4))) := by
  unfold ip4Stage
  cases h : p.ip4 with
  | none => exact ⟨s, hg, rfl, rfl⟩
  | some c =>
    obtain ⟨c4', hI', he⟩ := ip4_stage_S c p.undo l s (hg.2 c h)
    refine ⟨{ s with c4 := c4' }, ⟨hg.1, fun c0 hc0 => ?_⟩, rfl, ?_⟩
    · rw [h] at hc0; cases hc0; exact hI'
    · simp only [Py.optCase_some, smbind_apply, he, optStage]
      cases liftRes (IpText.anonIpLine c p.undo l) <;> rfl

/-- the two stateless stages in the whole-state monad -/
theorem optW_S (p : Pipeline) (l : List Char) (s : FaState) :
    (Py.optCase p.words (fun a => S.bind (resS (Src.words_anonymize p.wenv a l)) (fun x => S.pure x)) (S.pure l) s
     = (match wordStage p l with
        | .error e => .error e
        | .ok o => .ok (o, s))) := by
  unfold wordStage
  cases p.words with
  | none => rfl
  | some w => simp only [Py.optCase_some, smbind_apply, resS, optStage, liftRes, words_anonymize_tie]; cases Words.anonymize p.wenv w l <;> rfl

theorem optA_S (p : Pipeline) (l : List Char) (s : FaState) :
    (Py.optCase p.asn (fun a => S.bind (resS (AsNum.anonymize a l)) (fun x => S.pure x)) (S.pure l) s
     = (match asStage p l with
        | .error e => .error e
        | .ok o => .ok (o, s))) := by
  unfold asStage
  cases p.asn with
  | none => rfl
  | some w => simp only [Py.optCase_some, smbind_apply, resS, optStage, liftRes]; cases AsNum.anonymize w l <;> rfl

/-- **The loop body of `anonymize_io` as written, with the lookup table and both memos as state, computes the pure pipeline step.**
For every pipeline (every feature subset, anonymize or undo), every line and every state whose memos satisfy the invariant: the
result is `Lines.lineStep`'s (same line, same WARNING records, same error if the model fails), the lookup table afterwards is the
model's, and the memos still satisfy the invariant – so the statement applies to the next line again. -/
theorem line_step_full_spec (p : Pipeline) (line : List Char) (s : FaState) (hg : Good p s) :
    ∃ s', Good p s' ∧
      (match lineStep p s.lk line with
       | .error e => Src.line_step_full p line s = .error e
       | .ok (o, lk', logs) => Src.line_step_full p line s = .ok ((o, logs), s') ∧ s'.lk = lk') := by
  unfold Src.line_step_full lineStep pureStages
  simp only [bind, pure, Except.bind]
  simp only [smbind_apply, secret_stage_S]
  cases hs : secretStage p s.lk line with
  | error e => exact ⟨s, hg, rfl⟩
  | ok r =>
    obtain ⟨l1, lk1, logs⟩ := r
    simp only []
    have hg1 : Good p ({ s with lk := lk1 } : FaState) := hg
    obtain ⟨s6, hg6, hl6, e6⟩ := opt6_S p l1 _ hg1
    simp only [e6]
    cases h6 : ip6Stage p l1 with
    | error e => exact ⟨s, hg, rfl⟩
    | ok l2 =>
      simp only []
      obtain ⟨s4, hg4, hl4, e4⟩ := opt4_S p l2 s6 hg6
      simp only [e4]
      cases h4 : ip4Stage p l2 with
      | error e => exact ⟨s, hg, rfl⟩
      | ok l3 =>
        simp only [optW_S]
        cases hw : wordStage p l3 with
        | error e => exact ⟨s, hg, rfl⟩
        | ok l4 =>
          simp only [optA_S]
          cases ha : asStage p l4 with
          | error e => exact ⟨s, hg, rfl⟩
          | ok l5 =>
            refine ⟨s4, hg4, ?_, ?_⟩
            · simp only [ite_self, smpure_apply]
            · rw [hl4, hl6]

end Netconan.SrcTie
