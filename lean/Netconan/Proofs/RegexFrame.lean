import Netconan.Model.Regex
/-!
# Frame theorem of the regex engine

`m_adv`: every success of the continuation-passing matcher is a success of its continuation at an
*advanced* zipper position – for every pattern, fuel, continuation and input.  From it:
`matchAt_adv` (a match is a span of the remaining input starting at the current position) and
`subLoop_frame` / `sub_frame`: `pattern.sub(f, s)` yields a segmentation of `s` into kept characters
and matched spans, the output being the same sequence with every matched span replaced by the value
of `f` on it – nothing outside matched spans changes, spans are in order and disjoint.
-/
namespace Netconan
namespace Regex

/-- `z'` is `z` advanced over `w` -/
def Adv (z z' : Z) : Prop := ∃ w : List Char, z'.left = w.reverse ++ z.left ∧ z.right = w ++ z'.right

theorem Adv.refl (z : Z) : Adv z z := ⟨[], by simp, by simp⟩
theorem Adv.trans {a b c : Z} : Adv a b → Adv b c → Adv a c := by
  rintro ⟨w1, h1, h2⟩ ⟨w2, h3, h4⟩
  exact ⟨w1 ++ w2, by simp [h3, h1], by simp [h2, h4]⟩

theorem orElse_ok {α} {r : Res α} {f : Unit → Res α} {a : α} (h : r.orElse f = .ok a) :
    r = .ok a ∨ (r = .none ∧ f () = .ok a) := by
  cases r <;> simp_all [Res.orElse]

theorem m_adv (fuel : Nat) (r : Re) (k : K) (z : Z) (cs : Caps) (res : Z × Caps) :
    m fuel r k z cs = .ok res → ∃ z' cs', Adv z z' ∧ k z' cs' = .ok res := by
  induction fuel generalizing r k z cs res with
  | zero => intro h; simp [m] at h
  | succ f ih =>
    intro h
    cases r with
    | chr rs =>
      simp only [m] at h
      split at h
      · simp at h
      · next c rest hr =>
        split at h
        · exact ⟨_, cs, ⟨[c], by simp, by simp [hr]⟩, h⟩
        · simp at h
    | eps => exact ⟨z, cs, Adv.refl z, by simpa [m] using h⟩
    | fail => simp [m] at h
    | bol =>
      simp only [m] at h
      split at h
      · exact ⟨z, cs, Adv.refl z, h⟩
      · simp at h
    | eol =>
      simp only [m] at h
      split at h
      · exact ⟨z, cs, Adv.refl z, h⟩
      · simp at h
    | seq a b =>
      simp only [m] at h
      obtain ⟨z1, cs1, h1, hk1⟩ := ih _ _ _ _ _ h
      obtain ⟨z2, cs2, h2, hk2⟩ := ih _ _ _ _ _ hk1
      exact ⟨z2, cs2, h1.trans h2, hk2⟩
    | alt a b =>
      simp only [m] at h
      rcases orElse_ok h with h1 | ⟨_, h2⟩
      · exact ih _ _ _ _ _ h1
      · exact ih _ _ _ _ _ h2
    | grp idx r =>
      simp only [m] at h
      obtain ⟨z1, cs1, h1, hk1⟩ := ih _ _ _ _ _ h
      exact ⟨z1, _, h1, hk1⟩
    | look ahead neg width r =>
      simp only [m] at h
      split at h
      · split at h
        · exact ⟨z, cs, Adv.refl z, h⟩
        · simp at h
      · split at h
        · exact ⟨z, _, Adv.refl z, h⟩
        · exact ⟨z, cs, Adv.refl z, h⟩
        · simp at h
        · simp at h
    | rep mn mx greedy r =>
      simp only [m] at h
      have hstop : ∀ res, (if mn == 0 then k z cs else Res.none) = .ok res → ∃ z' cs', Adv z z' ∧ k z' cs' = .ok res := by
        intro res hs
        split at hs
        · exact ⟨z, cs, Adv.refl z, hs⟩
        · simp at hs
      have hmore : ∀ res, (if mx == some 0 then Res.none else
            m f r (fun z' cs' =>
              if mn == 0 && z'.right.length == z.right.length then Res.none
              else m f (.rep (mn - 1) (mx.map (· - 1)) greedy r) k z' cs') z cs) = .ok res →
            ∃ z' cs', Adv z z' ∧ k z' cs' = .ok res := by
        intro res hs
        split at hs
        · simp at hs
        · obtain ⟨z1, cs1, h1, hk1⟩ := ih _ _ _ _ _ hs
          split at hk1
          · simp at hk1
          · obtain ⟨z2, cs2, h2, hk2⟩ := ih _ _ _ _ _ hk1
            exact ⟨z2, cs2, h1.trans h2, hk2⟩
      split at h
      · rcases orElse_ok h with h1 | ⟨_, h2⟩
        · exact hmore _ h1
        · exact hstop _ h2
      · rcases orElse_ok h with h1 | ⟨_, h2⟩
        · exact hstop _ h1
        · exact hmore _ h2

/-- a match at a position is a span of the remaining input that starts at that position -/
theorem matchAt_adv (r : Re) (fuel : Nat) (z z' : Z) (cs : Caps) (h : matchAt r fuel z = .ok (z', cs)) : Adv z z' := by
  obtain ⟨z1, cs1, h1, hk⟩ := m_adv fuel r _ z [] (z', cs) h
  simp at hk
  rw [← hk.1]; exact h1

/-- the text of a match, as `sub` computes it, is the advanced-over part -/
theorem span_of_adv {z z' : Z} (h : Adv z z') :
    z.right = (z'.left.take (z'.left.length - z.left.length)).reverse ++ z'.right := by
  obtain ⟨w, h1, h2⟩ := h
  rw [h1, h2]
  simp

/-- pieces of a substitution: a kept character, or a matched span with its replacement -/
inductive Seg where
  | keep (c : Char)
  | rep (txt rp : List Char)

def Seg.src : Seg → List Char
  | .keep c => [c]
  | .rep t _ => t
def Seg.dst : Seg → List Char
  | .keep c => [c]
  | .rep _ r => r

/-- **Frame theorem of `sub`**: the input is the concatenation of the pieces' sources, the output the
concatenation of their destinations (after what was already emitted); every replaced piece is a span
that the matcher reported at its start, replaced by the value of `f` on that match. -/
theorem subLoop_frame (r : Re) (fuel : Nat) (f : Match → List Char) (n : Nat) :
    ∀ (z : Z) (acc out : List Char), subLoop r fuel f n z acc = .ok out →
      ∃ segs : List Seg, z.right = (segs.map Seg.src).flatten ∧ out = acc ++ (segs.map Seg.dst).flatten ∧
        ∀ s ∈ segs, ∀ t rp, s = .rep t rp → ∃ z0 z1 cs, matchAt r fuel z0 = .ok (z1, cs) ∧
          t = (z1.left.take (z1.left.length - z0.left.length)).reverse ∧ rp = f ⟨z0.left.length, t, cs⟩ := by
  induction n with
  | zero => intro z acc out h; simp [subLoop] at h
  | succ n ih =>
    intro z acc out h
    simp only [subLoop] at h
    cases hm : matchAt r fuel z with
    | oof => simp [hm] at h
    | ok p =>
      obtain ⟨z', cs⟩ := p
      simp only [hm] at h
      have hadv := matchAt_adv r fuel z z' cs hm
      have hspan := span_of_adv hadv
      by_cases hemp : ((z'.left.take (z'.left.length - z.left.length)).reverse).isEmpty = true
      · simp only [hemp, if_true] at h
        have htxt : (z'.left.take (z'.left.length - z.left.length)).reverse = [] := by simpa using hemp
        cases hr : z.right with
        | nil =>
          simp only [hr] at h
          simp at h
          refine ⟨[.rep [] (f ⟨z.left.length, [], cs⟩)], by simp [Seg.src], by simp [Seg.dst, ← h, htxt], ?_⟩
          intro s hs t rp hst
          simp at hs; subst hs
          simp at hst
          exact ⟨z, z', cs, hm, by rw [hst.1, htxt], by rw [← hst.2, hst.1]⟩
        | cons c rest =>
          simp only [hr] at h
          obtain ⟨segs, h1, h2, h3⟩ := ih _ _ _ h
          refine ⟨.rep [] (f ⟨z.left.length, [], cs⟩) :: .keep c :: segs, ?_, ?_, ?_⟩
          · simp [Seg.src, ← h1]
          · rw [h2]; simp [Seg.dst, htxt]
          · intro s hs t rp hst
            simp at hs
            rcases hs with rfl | rfl | hs
            · simp at hst
              exact ⟨z, z', cs, hm, by rw [hst.1, htxt], by rw [← hst.2, hst.1]⟩
            · simp at hst
            · exact h3 s hs t rp hst
      · simp only [hemp] at h
        obtain ⟨segs, h1, h2, h3⟩ := ih _ _ _ h
        refine ⟨.rep ((z'.left.take (z'.left.length - z.left.length)).reverse)
            (f ⟨z.left.length, (z'.left.take (z'.left.length - z.left.length)).reverse, cs⟩) :: segs, ?_, ?_, ?_⟩
        · rw [hspan]; simp [Seg.src, ← h1]
        · rw [h2]; simp [Seg.dst]
        · intro s hs t rp hst
          simp at hs
          rcases hs with rfl | hs
          · simp at hst
            exact ⟨z, z', cs, hm, hst.1.symm, by rw [← hst.2, ← hst.1]⟩
          · exact h3 s hs t rp hst
    | none =>
      simp only [hm] at h
      cases hr : z.right with
      | nil =>
        simp only [hr] at h
        simp at h
        exact ⟨[], by simp, by simp [h], by simp⟩
      | cons c rest =>
        simp only [hr] at h
        obtain ⟨segs, h1, h2, h3⟩ := ih _ _ _ h
        refine ⟨.keep c :: segs, by simp [Seg.src, ← h1], by rw [h2]; simp [Seg.dst], ?_⟩
        intro s hs t rp hst
        simp at hs
        rcases hs with rfl | hs
        · simp at hst
        · exact h3 s hs t rp hst

theorem sub_frame (r : Re) (f : Match → List Char) (s out : List Char) (h : sub r f s = .ok out) :
    ∃ segs : List Seg, s = (segs.map Seg.src).flatten ∧ out = (segs.map Seg.dst).flatten ∧
      ∀ sg ∈ segs, ∀ t rp, sg = .rep t rp → ∃ z0 z1 cs, matchAt r (fuelFor r s.length) z0 = .ok (z1, cs) ∧
        t = (z1.left.take (z1.left.length - z0.left.length)).reverse ∧ rp = f ⟨z0.left.length, t, cs⟩ := by
  obtain ⟨segs, h1, h2, h3⟩ := subLoop_frame r _ f _ ⟨[], s⟩ [] out h
  exact ⟨segs, h1, by simpa using h2, h3⟩

end Regex
end Netconan
