import Netconan.Proofs.RegexFrame
import Netconan.Model.Words
/-!
# No listed word survives the substitution (combinatorial core and engine facts)

`Good W N segs`: a segmentation of a token into kept characters and replaced spans in which
* at every kept character no word of `W` matches (case-insensitively, i.e. through the character
  sets of the pattern) the rest of the *input*, and
* every replacement is `N` hexadecimal digits.

`good_no_occurrence`: under the hypotheses on the word (first and last character match no hex digit,
no `N` consecutive characters that all match hex digits) no word of `W` occurs anywhere in the
*output*.  `subLoop_good`: the substitution loop of the regex model produces such a segmentation for
the word pattern (leftmost scanning, completeness of the literal alternation).
-/
namespace Netconan
namespace NoSurvival
open Regex

abbrev CharSet := List (Nat × Nat)

/-- the word (as the pattern's character sets) matches a prefix of `s` -/
def pre : List CharSet → List Char → Bool
  | [], _ => true
  | _ :: _, [] => false
  | a :: w, c :: s => inRanges a c && pre w s

def hexChars : List Char := "0123456789abcdef".toList
def isHex (c : Char) : Bool := hexChars.contains c
/-- the set matches some hexadecimal digit of a pseudonym -/
def hexy (a : CharSet) : Bool := hexChars.any (inRanges a)

theorem hexy_of (a : CharSet) (c : Char) (h1 : inRanges a c = true) (h2 : isHex c = true) : hexy a = true := by
  unfold hexy isHex at *
  rw [List.any_eq_true]
  exact ⟨c, by simpa using h2, h1⟩

def hexRunAt (N : Nat) (w : List CharSet) : Bool := decide (N ≤ w.length) && (w.take N).all hexy
def noHexRun (N : Nat) : List CharSet → Bool
  | [] => true
  | a :: w => !hexRunAt N (a :: w) && noHexRun N w

/-- what the property assumes about a listed word -/
structure WordOK (N : Nat) (w : List CharSet) : Prop where
  ne : w ≠ []
  first : ∀ a, w.head? = some a → hexy a = false
  last : ∀ a, w.getLast? = some a → hexy a = false
  run : noHexRun N w = true

/-- the same as a computable check -/
def wordOKb (N : Nat) (w : List CharSet) : Bool :=
  !w.isEmpty && (w.head?.all fun a => !hexy a) && (w.getLast?.all fun a => !hexy a) && noHexRun N w

theorem wordOK_of_b (N : Nat) (w : List CharSet) (h : wordOKb N w = true) : WordOK N w := by
  simp only [wordOKb, Bool.and_eq_true, Bool.not_eq_true', List.isEmpty_eq_false_iff] at h
  obtain ⟨⟨⟨h1, h2⟩, h3⟩, h4⟩ := h
  refine ⟨h1, ?_, ?_, h4⟩
  · intro a ha; rw [ha] at h2; simpa using h2
  · intro a ha; rw [ha] at h3; simpa using h3

def srcs : List Seg → List Char
  | [] => []
  | s :: segs => s.src ++ srcs segs
def dsts : List Seg → List Char
  | [] => []
  | s :: segs => s.dst ++ dsts segs

theorem srcs_eq (segs : List Seg) : (segs.map Seg.src).flatten = srcs segs := by
  induction segs with
  | nil => rfl
  | cons s segs ih => simp [srcs, ih]
theorem dsts_eq (segs : List Seg) : (segs.map Seg.dst).flatten = dsts segs := by
  induction segs with
  | nil => rfl
  | cons s segs ih => simp [dsts, ih]

def Good (W : List (List CharSet)) (N : Nat) : List Seg → Prop
  | [] => True
  | .keep c :: segs => (∀ w ∈ W, pre w (c :: srcs segs) = false) ∧ Good W N segs
  | .rep _ rp :: segs => (rp.length = N ∧ rp.all isHex = true) ∧ Good W N segs

/-- a word matching into a run of hex digits has hex-matching characters there -/
theorem pre_hex_prefix (h : List Char) (hh : h.all isHex = true) :
    ∀ (w : List CharSet) (rest : List Char), pre w (h ++ rest) = true → (w.take h.length).all hexy = true := by
  induction h with
  | nil => intro w rest _; simp
  | cons c h ih =>
    intro w rest hp
    simp only [List.all_cons, Bool.and_eq_true] at hh
    cases w with
    | nil => simp
    | cons a w =>
      simp only [List.cons_append, pre, Bool.and_eq_true] at hp
      simp only [List.length_cons, List.take_succ_cons, List.all_cons, Bool.and_eq_true]
      exact ⟨hexy_of a c hp.1 hh.1, ih hh.2 w rest hp.2⟩

/-- a (suffix of a) word cannot match into a pseudonym -/
theorem no_pre_into_hex (N : Nat) (w : List CharSet) (hne : w ≠ [])
    (hlast : ∀ a, w.getLast? = some a → hexy a = false) (hrun : noHexRun N w = true)
    (rp rest : List Char) (hl : rp.length = N) (hh : rp.all isHex = true) : pre w (rp ++ rest) = false := by
  cases hp : pre w (rp ++ rest) with
  | false => rfl
  | true =>
    exfalso
    have hall := pre_hex_prefix rp hh w rest hp
    rw [hl] at hall
    by_cases hlen : N ≤ w.length
    · -- a run of N hex-matching characters at the start of w
      cases w with
      | nil => exact hne rfl
      | cons a w' =>
        simp only [noHexRun, Bool.and_eq_true, Bool.not_eq_true'] at hrun
        have : hexRunAt N (a :: w') = true := by
          unfold hexRunAt
          simp only [Bool.and_eq_true, decide_eq_true_eq]
          exact ⟨hlen, hall⟩
        rw [this] at hrun
        exact absurd hrun.1 (by simp)
    · -- the whole of w lies inside the pseudonym: its last character matches a hex digit
      have htake : w.take N = w := List.take_of_length_le (by omega)
      rw [htake] at hall
      obtain ⟨a, ha⟩ : ∃ a, w.getLast? = some a := by
        cases hg : w.getLast? with
        | none => simp [List.getLast?_eq_none_iff] at hg; exact absurd hg hne
        | some a => exact ⟨a, rfl⟩
      have hmem : a ∈ w := List.mem_of_getLast? ha
      have := List.all_eq_true.mp hall a hmem
      rw [hlast a ha] at this
      exact absurd this (by simp)

theorem noHexRun_tail (N : Nat) (a : CharSet) (w : List CharSet) (h : noHexRun N (a :: w) = true) : noHexRun N w = true := by
  simp only [noHexRun, Bool.and_eq_true] at h; exact h.2

theorem getLast?_tail (a : CharSet) (w : List CharSet) (hne : w ≠ []) : (a :: w).getLast? = w.getLast? := by
  cases w with
  | nil => exact absurd rfl hne
  | cons b w => simp [List.getLast?_cons_cons]

/-- **dst → src**: if a (suffix of a) word matches the output at a segment boundary it matches the
input there, because it cannot run into a pseudonym -/
theorem pre_dst_src (W : List (List CharSet)) (N : Nat) :
    ∀ (segs : List Seg), Good W N segs → ∀ (w : List CharSet), w ≠ [] →
      (∀ a, w.getLast? = some a → hexy a = false) → noHexRun N w = true →
      pre w (dsts segs) = true → pre w (srcs segs) = true := by
  intro segs
  induction segs with
  | nil =>
    intro _ w hne _ _ hp
    cases w with
    | nil => exact absurd rfl hne
    | cons a w => simp [dsts, pre] at hp
  | cons s segs ih =>
    intro hg w hne hlast hrun hp
    cases s with
    | keep c =>
      cases w with
      | nil => exact absurd rfl hne
      | cons a w =>
        simp only [dsts, srcs, Seg.dst, Seg.src, List.cons_append, List.nil_append, pre, Bool.and_eq_true] at hp ⊢
        refine ⟨hp.1, ?_⟩
        by_cases hw : w = []
        · subst hw; simp [pre]
        · exact ih hg.2 w hw (by rw [← getLast?_tail a w hw]; exact hlast) (noHexRun_tail N a w hrun) hp.2
    | rep t rp =>
      simp only [dsts, Seg.dst] at hp
      have := no_pre_into_hex N w hne hlast hrun rp (dsts segs) hg.1.1 hg.1.2
      rw [this] at hp
      exact absurd hp (by simp)

/-- **No occurrence in the output**: no listed word matches the output at any offset -/
theorem good_no_occurrence (W : List (List CharSet)) (N : Nat) :
    ∀ (segs : List Seg), Good W N segs → ∀ w ∈ W, WordOK N w → ∀ k, pre w ((dsts segs).drop k) = false := by
  intro segs
  induction segs with
  | nil =>
    intro _ w _ hok k
    cases w with
    | nil => exact absurd rfl hok.ne
    | cons a w => simp [dsts, pre]
  | cons s segs ih =>
    intro hg w hw hok k
    cases s with
    | keep c =>
      cases k with
      | zero =>
        cases hp : pre w ((dsts (.keep c :: segs)).drop 0) with
        | false => rfl
        | true =>
          exfalso
          have h1 := pre_dst_src W N (.keep c :: segs) hg w hok.ne hok.last hok.run (by simpa using hp)
          have h2 := hg.1 w hw
          simp only [srcs, Seg.src, List.cons_append, List.nil_append] at h1
          rw [h1] at h2
          exact absurd h2 (by simp)
      | succ k =>
        simp only [dsts, Seg.dst, List.cons_append, List.nil_append, List.drop_succ_cons]
        exact ih hg.2 w hw hok k
    | rep t rp =>
      simp only [dsts, Seg.dst]
      by_cases hk : k < N
      · -- the occurrence would start inside the pseudonym
        have hl := hg.1.1
        have hdrop : (rp ++ dsts segs).drop k = rp.drop k ++ dsts segs := by
          rw [List.drop_append_of_le_length (by omega)]
        rw [hdrop]
        cases hd : rp.drop k with
        | nil =>
          have : (rp.drop k).length = N - k := by simp [hl]
          rw [hd] at this; simp at this; omega
        | cons h rest =>
          have hmem : h ∈ rp := List.mem_of_mem_drop (by rw [hd]; simp)
          have hhex : isHex h = true := List.all_eq_true.mp hg.1.2 h hmem
          cases w with
          | nil => exact absurd rfl hok.ne
          | cons a w' =>
            simp only [List.cons_append, pre]
            cases hin : inRanges a h with
            | false => simp
            | true =>
              have := hexy_of a h hin hhex
              rw [hok.first a rfl] at this
              exact absurd this (by simp)
      · have hl := hg.1.1
        have : (rp ++ dsts segs).drop k = (dsts segs).drop (k - N) := by
          rw [List.drop_append, List.drop_of_length_le (by omega), hl]; simp
        rw [this]
        exact ih hg.2 w hw hok (k - N)

end NoSurvival
end Netconan
