import Netconan.Generated.SrcJun
import Netconan.Proofs.SrcTieSecrets
/-!
# The translated arithmetic of the `$9$` codec is the model's (on alphabet indices)
-/
namespace Netconan.SrcTie
open Netconan Netconan.Generated Netconan.Juniper

/-- second loop of `_gap_encode`: appends what `emit` produces -/
theorem emit_loop (gs : List Nat) (prev : Nat) (crypt : List Nat)
    (body : Nat → Nat × List Nat → Id (Sum (List Nat) (Nat × List Nat))) (k : Nat × List Nat → Id (List Nat))
    (hbody : ∀ g s, body g s = pure (Sum.inr ((g + (s.1 + 1)) % Juniper.A, s.2 ++ [(g + (s.1 + 1)) % Juniper.A])))
    (hk : ∀ s, k s = pure s.2) :
    Py.forLoop (m := Id) gs (prev, crypt) body k = crypt ++ emit prev gs := by
  induction gs generalizing prev crypt with
  | nil => simp only [Py.forLoop, emit, hk, List.append_nil]; rfl
  | cons g gs ih =>
    simp only [Py.forLoop, emit, hbody]
    have : (g + (prev + 1)) % Juniper.A = (g + prev + 1) % Juniper.A := by rw [Nat.add_assoc]
    show Py.forLoop gs _ _ _ = _
    rw [ih, this, List.append_assoc]
    rfl

/-- **`_gap_encode` as written in the source (two loops) is `emit prev (gapsOf pc enc)`** -/
theorem gap_encode_tie (pc prev : Nat) (enc : List Nat) : Src.gap_encode pc prev enc = emit prev (gapsOf pc enc) := by
  unfold Src.gap_encode gapsOf
  rw [forLoop_pure_fold enc.reverse ([], pc) _ (fun (acc : List Nat × Nat) m => ((acc.2 / m) :: acc.1, acc.2 % m))]
  · generalize List.foldl (fun (acc : List Nat × Nat) m => ((acc.2 / m) :: acc.1, acc.2 % m)) ([], pc) enc.reverse = r
    obtain ⟨gaps, ov⟩ := r
    simp only []
    show Py.forLoop gaps (prev, []) _ _ = _
    rw [emit_loop gaps prev []]
    · simp
    · intro g s; obtain ⟨a, b⟩ := s; rfl
    · intro s; obtain ⟨a, b⟩ := s; rfl
  · intro x s; obtain ⟨a, b⟩ := s; rfl

/-- `_gap` -/
theorem gap_tie (c1 c2 : Nat) : Src.gap c1 c2 = gapBack c1 c2 := rfl

/-- `_fixedc` agrees with the table the generator extracted from it -/
theorem fixedc_tie (n : Nat) : Src.fixedc n = Juniper.fixedc n := by
  unfold Src.fixedc Juniper.fixedc
  match n with
  | 0 => decide
  | 1 => decide
  | 2 => decide
  | 3 => decide
  | n + 4 => simp [Id.run, junFixedc, List.getD]; cases n <;> rfl

end Netconan.SrcTie
