import Netconan.Proofs.ShowV4
import Netconan.Proofs.IpScan
import Netconan.Proofs.Ipv4Pinned
/-!
# Scanning the anonymized line again (undo): the same positions are replaced

`scan_of_output`: if `segs` is the scan of a line under a replacement function `F` that maps words of the IPv4
core language to words of that language, then replacing every span by its replacement gives a text whose scan
(under any `G`) has the *same* kept characters and replaces exactly the replacements.  `scan_unique`: the scan
of a text is unique.  Together: undoing an anonymized line touches exactly the tokens that were written.
-/
namespace Netconan
namespace NoSurvival
open Regex

abbrev E4 : CharSet := Pinned.Patterns.cs0

/-- digit or dot: the characters of IPv4 tokens; none of them is a delimiter -/
def DD (c : Char) : Prop := isDig c = true ∨ c = '.'

theorem dd_not_enc (c : Char) (h : DD c) : inRanges E4 c = false ∧ (c == '\n') = false := by
  have h10 : ('\n' : Char).toNat = 10 := by decide
  have h46 : ('.' : Char).toNat = 46 := by decide
  have hc : c.toNat = 46 ∨ (48 ≤ c.toNat ∧ c.toNat ≤ 57) := by
    rcases h with h | rfl
    · right; simpa [isDig] using h
    · left; exact h46
  constructor
  · cases hi : inRanges E4 c with
    | false => rfl
    | true => simp [inRanges, E4, Pinned.Patterns.cs0] at hi; omega
  · cases hcn : (c == '\n') with
    | false => rfl
    | true => have : c = '\n' := by simpa using hcn
              rw [this, h10] at hc; omega

theorem nextOK_dd (c : Char) (h : DD c) (rest : List Char) : nextOK E4 (c :: rest) = false := by
  obtain ⟨a, b⟩ := dd_not_enc c h
  simp [nextOK, a, b]

theorem prevOK_dd (c : Char) (h : DD c) (l : List Char) : prevOK E4 (c :: l) = false := by
  simp [prevOK, (dd_not_enc c h).1]

abbrev S4 := Stands E4 core4
abbrev En4 : List Char → List Char → List Char → Prop :=
  fun left w rest => prevOK E4 left = true ∧ Lang core4 w ∧ nextOK E4 rest = true

theorem lang4_ne {w : List Char} (h : Lang core4 w) : w ≠ [] := by
  intro hw
  have := lang_minLen h
  rw [hw] at this
  have hm : 0 < minLen core4 := core4_min
  simp at this; omega

theorem lang4_head_dd {w : List Char} (h : Lang core4 w) : ∃ c r, w = c :: r ∧ DD c := by
  cases w with
  | nil => exact absurd rfl (lang4_ne h)
  | cons c r => exact ⟨c, r, rfl, core4_chars _ h c (by simp)⟩

theorem lang4_last_dd {w : List Char} (h : Lang core4 w) : ∃ c r, w.reverse = c :: r ∧ DD c := by
  cases hr : w.reverse with
  | nil => have : w = [] := by simpa using hr
           exact absurd this (lang4_ne h)
  | cons c r => exact ⟨c, r, rfl, core4_chars _ h c (by have : c ∈ w.reverse := by rw [hr]; simp
                                                        simpa using this)⟩

/-- the left contexts of corresponding positions in input and output: same last character, or both a digit/dot -/
def RelL (l l' : List Char) : Prop :=
  (l = [] ∧ l' = []) ∨ (∃ c a b, l = c :: a ∧ l' = c :: b) ∨ (∃ c c' a b, l = c :: a ∧ l' = c' :: b ∧ DD c ∧ DD c')

theorem prevOK_rel {l l' : List Char} (h : RelL l l') : prevOK E4 l = prevOK E4 l' := by
  rcases h with ⟨rfl, rfl⟩ | ⟨c, a, b, rfl, rfl⟩ | ⟨c, c', a, b, rfl, rfl, h1, h2⟩
  · rfl
  · rfl
  · rw [prevOK_dd c h1, prevOK_dd c' h2]

def mapSegs (G : List Char → List Char) : List Seg → List Seg
  | [] => []
  | .keep c :: segs => .keep c :: mapSegs G segs
  | .rep _ rp :: segs => .rep rp (G rp) :: mapSegs G segs

theorem srcs_mapSegs (G : List Char → List Char) (segs : List Seg) : srcs (mapSegs G segs) = dsts segs := by
  induction segs with
  | nil => rfl
  | cons s segs ih => cases s <;> simp [mapSegs, srcs, dsts, Seg.src, Seg.dst, ih]

/-- what the proofs need of a scan's replaced spans (true of every scan whose `Ends` is `En4`) -/
theorem srcs_nil_iff (F) (left : List Char) (segs : List Seg) (h : ScanG S4 En4 F left segs) : srcs segs = [] ↔ segs = [] := by
  constructor
  · intro hs
    cases segs with
    | nil => rfl
    | cons s rest =>
      cases s with
      | keep c => simp [srcs, Seg.src] at hs
      | rep t rp => simp [srcs, Seg.src] at hs; exact absurd hs.1 h.1.1
  · rintro rfl; rfl

theorem isEmpty_append_ne {α} (a b : List α) (h : a ≠ []) : (a ++ b).isEmpty = false := by
  cases a with
  | nil => exact absurd rfl h
  | cons _ _ => rfl

/-- `nextOK` of the rest is the same before and after the substitution -/
theorem nextOK_rest (F : List Char → List Char) (hF : ∀ t, Lang core4 t → Lang core4 (F t)) (left : List Char) (segs : List Seg)
    (h : ScanG S4 En4 F left segs) (hn : nextOK E4 (srcs segs) = true) : nextOK E4 (dsts segs) = true := by
  cases segs with
  | nil => rfl
  | cons s rest =>
    cases s with
    | keep c =>
      have hemp : (srcs rest).isEmpty = (dsts rest).isEmpty := by
        cases rest with
        | nil => rfl
        | cons s2 r2 =>
          cases s2 with
          | keep d => simp [srcs, dsts, Seg.src, Seg.dst]
          | rep t2 rp2 =>
            have h2 := h.2.1
            obtain ⟨_, hl, _⟩ := h2.2.1
            have ht : t2 ≠ [] := h2.1
            have hr : rp2 ≠ [] := by rw [h2.2.2]; exact lang4_ne (hF t2 hl)
            simp only [srcs, dsts, Seg.src, Seg.dst]
            rw [isEmpty_append_ne _ _ ht, isEmpty_append_ne _ _ hr]
      simp only [srcs, dsts, Seg.src, Seg.dst, List.cons_append, List.nil_append, nextOK] at hn ⊢
      rw [← hemp]; exact hn
    | rep t rp =>
      exfalso
      obtain ⟨_, hl, _⟩ := h.1.2.1
      obtain ⟨c, r, hc, hd⟩ := lang4_head_dd hl
      simp only [srcs, Seg.src, hc, List.cons_append] at hn
      rw [nextOK_dd c hd] at hn
      exact absurd hn (by simp)

/-- a word that starts right after a digit/dot in the output and runs over the following segments runs over the
same characters of the input: it cannot reach a replaced span, because that span is preceded by a delimiter -/
theorem word_through_keeps (F : List Char → List Char) (hF : ∀ t, Lang core4 t → Lang core4 (F t)) :
    ∀ (segs : List Seg) (left : List Char) (w0 r' : List Char), ScanG S4 En4 F left segs →
      (∃ y l, left = y :: l ∧ DD y) → (∀ x ∈ w0, DD x) → dsts segs = w0 ++ r' → nextOK E4 r' = true →
      ∃ r, srcs segs = w0 ++ r ∧ nextOK E4 r = true := by
  intro segs
  induction segs with
  | nil =>
    intro left w0 r' _ _ _ hd hn
    have : w0 = [] ∧ r' = [] := by simpa [dsts] using hd.symm
    exact ⟨[], by simp [srcs, this.1], rfl⟩
  | cons s rest ih =>
    intro left w0 r' hs hl hw hd hn
    cases s with
    | keep d =>
      simp only [dsts, Seg.dst, List.cons_append, List.nil_append] at hd
      cases w0 with
      | nil =>
        -- the word ends here: the rest of the input starts with the same character
        simp only [List.nil_append] at hd
        refine ⟨srcs (.keep d :: rest), by simp, ?_⟩
        have := nextOK_rest F hF left (.keep d :: rest) hs
        -- use the converse direction through the same emptiness argument
        rw [← hd] at hn
        have hemp : (srcs rest).isEmpty = (dsts rest).isEmpty := by
          cases rest with
          | nil => rfl
          | cons s2 r2 =>
            cases s2 with
            | keep e => simp [srcs, dsts, Seg.src, Seg.dst]
            | rep t2 rp2 =>
              have h2 := hs.2.1
              obtain ⟨_, hl2, _⟩ := h2.2.1
              have ht : t2 ≠ [] := h2.1
              have hr : rp2 ≠ [] := by rw [h2.2.2]; exact lang4_ne (hF t2 hl2)
              simp only [srcs, dsts, Seg.src, Seg.dst]
              rw [isEmpty_append_ne _ _ ht, isEmpty_append_ne _ _ hr]
        simp only [srcs, Seg.src, List.cons_append, List.nil_append, nextOK] at hn ⊢
        rw [hemp]; exact hn
      | cons x w1 =>
        simp only [List.cons_append, List.cons.injEq] at hd
        obtain ⟨rfl, hd2⟩ := hd
        have hx : DD d := hw d (by simp)
        obtain ⟨r, hr, hnr⟩ := ih (d :: left) w1 r' hs.2 ⟨d, left, rfl, hx⟩ (fun z hz => hw z (by simp [hz])) hd2 hn
        exact ⟨r, by simp [srcs, Seg.src, hr], hnr⟩
    | rep t rp =>
      exfalso
      obtain ⟨y, l, rfl, hy⟩ := hl
      have := hs.1.2.1.1
      rw [prevOK_dd y hy] at this
      exact absurd this (by simp)

/-- **The scan of the output**: same kept characters, the replacements are what is replaced now -/
theorem scan_of_output (F G : List Char → List Char) (hF : ∀ t, Lang core4 t → Lang core4 (F t)) :
    ∀ (segs : List Seg) (left left' : List Char), ScanG S4 En4 F left segs → RelL left left' →
      ScanG S4 En4 G left' (mapSegs G segs) := by
  intro segs
  induction segs with
  | nil => intro _ _ _ _; trivial
  | cons s rest ih =>
    intro left left' hs hrel
    cases s with
    | keep c =>
      refine ⟨?_, ih (c :: left) (c :: left') hs.2 (Or.inr (Or.inl ⟨c, left, left', rfl, rfl⟩))⟩
      rw [srcs_mapSegs]
      rintro ⟨hp, w, r', hl, hr, hn⟩
      apply hs.1
      obtain ⟨c0, w0, rfl, hc0⟩ := lang4_head_dd hl
      simp only [List.cons_append, List.cons.injEq] at hr
      obtain ⟨rfl, hr2⟩ := hr
      obtain ⟨r, hsr, hnr⟩ := word_through_keeps F hF rest (c :: left) w0 r' hs.2 ⟨c, left, rfl, hc0⟩
        (fun x hx => core4_chars _ hl x (by simp [hx])) hr2 hn
      exact ⟨by rw [prevOK_rel hrel]; exact hp, c :: w0, r, hl, by simp [hsr], hnr⟩
    | rep t rp =>
      obtain ⟨⟨htne, ⟨hp, hl, hn⟩, hrp⟩, hrest⟩ := hs
      have hlrp : Lang core4 rp := by rw [hrp]; exact hF t hl
      refine ⟨⟨lang4_ne hlrp, ⟨by rw [← prevOK_rel hrel]; exact hp, hlrp, ?_⟩, rfl⟩, ?_⟩
      · rw [srcs_mapSegs]
        exact nextOK_rest F hF _ rest hrest hn
      · apply ih _ _ hrest
        obtain ⟨c1, r1, e1, d1⟩ := lang4_last_dd hl
        obtain ⟨c2, r2, e2, d2⟩ := lang4_last_dd hlrp
        exact Or.inr (Or.inr ⟨c1, c2, r1 ++ left, r2 ++ left', by rw [e1]; rfl, by rw [e2]; rfl, d1, d2⟩)

end NoSurvival
end Netconan

namespace Netconan
namespace NoSurvival
open Regex

/-- two words of the core language standing alone at the same place are the same word (restated for `E4`) -/
theorem lang4_unique (t w rest1 rest2 : List Char) (ht : Lang core4 t) (hw : Lang core4 w) (he : t ++ rest1 = w ++ rest2)
    (h1 : nextOK E4 rest1 = true) (h2 : nextOK E4 rest2 = true) : t = w := by
  have key : ∀ (a b ra rb : List Char), Lang core4 b → a ++ ra = b ++ rb → nextOK E4 ra = true → a.length < b.length → False := by
    intro a b ra rb hb he hn hlt
    have hra : ra = (b.drop a.length) ++ rb := by
      have := congrArg (List.drop a.length) he
      rw [List.drop_left' rfl, List.drop_append_of_le_length (by omega)] at this
      exact this
    cases hd : b.drop a.length with
    | nil =>
      have : (b.drop a.length).length = b.length - a.length := by simp
      rw [hd] at this; simp at this; omega
    | cons c rest =>
      have hmem : c ∈ b := List.mem_of_mem_drop (by rw [hd]; simp)
      have := nextOK_dd c (core4_chars b hb c hmem) (rest ++ rb)
      rw [hra, hd] at hn
      simp only [List.cons_append] at hn
      rw [this] at hn
      exact absurd hn (by simp)
  have hlen : t.length = w.length := by
    rcases Nat.lt_trichotomy t.length w.length with h | h | h
    · exact absurd (key t w rest1 rest2 hw he h1 h) id
    · exact h
    · exact absurd (key w t rest2 rest1 ht he.symm h2 h) id
  have := congrArg (List.take t.length) he
  rw [List.take_left' rfl, hlen, List.take_left' rfl] at this
  exact this

/-- **The scan of a text is unique** -/
theorem scan_unique (G : List Char → List Char) :
    ∀ (a b : List Seg) (left : List Char), ScanG S4 En4 G left a → ScanG S4 En4 G left b → srcs a = srcs b → a = b := by
  intro a
  induction a with
  | nil =>
    intro b left _ hb he
    exact ((srcs_nil_iff G left b hb).mp he.symm).symm
  | cons s a2 ih =>
    intro b left ha hb he
    cases b with
    | nil => exact absurd ((srcs_nil_iff G left _ ha).mp he) (by simp)
    | cons s' b2 =>
      cases s with
      | keep c =>
        cases s' with
        | keep c' =>
          simp only [srcs, Seg.src, List.cons_append, List.nil_append, List.cons.injEq] at he
          obtain ⟨rfl, he2⟩ := he
          rw [ih b2 (c :: left) ha.2 hb.2 he2]
        | rep t' rp' =>
          exfalso
          obtain ⟨⟨_, ⟨hp, hl, hn⟩, _⟩, _⟩ := hb
          apply ha.1
          exact ⟨hp, t', srcs b2, hl, by simpa [srcs, Seg.src] using he, hn⟩
      | rep t rp =>
        cases s' with
        | keep c' =>
          exfalso
          obtain ⟨⟨_, ⟨hp, hl, hn⟩, _⟩, _⟩ := ha
          apply hb.1
          exact ⟨hp, t, srcs a2, hl, by simpa [srcs, Seg.src] using he.symm, hn⟩
        | rep t' rp' =>
          obtain ⟨⟨_, ⟨_, hl, hn⟩, hrp⟩, ha2⟩ := ha
          obtain ⟨⟨_, ⟨_, hl', hn'⟩, hrp'⟩, hb2⟩ := hb
          simp only [srcs, Seg.src] at he
          have htt : t = t' := lang4_unique t t' _ _ hl hl' he hn hn'
          subst htt
          have he2 : srcs a2 = srcs b2 := List.append_cancel_left he
          rw [hrp, hrp', ih b2 _ ha2 hb2 he2]

end NoSurvival
end Netconan
