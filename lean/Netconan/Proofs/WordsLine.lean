import Netconan.Proofs.WordMatch
/-!
# From tokens to lines: a word that matches no white space cannot straddle tokens
-/
namespace Netconan
namespace NoSurvival
open Regex Secrets

/-- no occurrence of `w` at any offset of `s` -/
def NoOcc (w : List CharSet) (s : List Char) : Prop := ∀ k, pre w (s.drop k) = false

/-- `c` is matched by no character of the word -/
def Unmatchable (w : List CharSet) (c : Char) : Prop := ∀ a ∈ w, inRanges a c = false

theorem pre_cut : ∀ (w : List CharSet) (x : List Char) (c : Char) (y : List Char), Unmatchable w c →
    pre w (x ++ c :: y) = true → pre w x = true := by
  intro w
  induction w with
  | nil => intro x c y _ _; cases x <;> rfl
  | cons a w ih =>
    intro x c y hu hp
    cases x with
    | nil =>
      simp only [List.nil_append, pre, Bool.and_eq_true] at hp
      rw [hu a (by simp)] at hp
      exact absurd hp.1 (by simp)
    | cons d x =>
      simp only [List.cons_append, pre, Bool.and_eq_true] at hp ⊢
      exact ⟨hp.1, ih x c y (fun b hb => hu b (by simp [hb])) hp.2⟩

theorem noOcc_nil (w : List CharSet) (hne : w ≠ []) : NoOcc w [] := by
  intro k
  cases w with
  | nil => exact absurd rfl hne
  | cons a w => simp [pre]

theorem noOcc_join (w : List CharSet) (hne : w ≠ []) (x y : List Char) (c : Char) (hu : Unmatchable w c)
    (hx : NoOcc w x) (hy : NoOcc w y) : NoOcc w (x ++ c :: y) := by
  intro k
  by_cases hk : k ≤ x.length
  · rw [List.drop_append_of_le_length hk]
    cases hp : pre w (x.drop k ++ c :: y) with
    | false => rfl
    | true =>
      have := pre_cut w _ c y hu hp
      rw [hx k] at this
      exact absurd this (by simp)
  · have : (x ++ c :: y).drop k = y.drop (k - x.length - 1) := by
      rw [List.drop_append, List.drop_of_length_le (by omega), List.nil_append]
      generalize hj : k - x.length = j
      cases j with
      | zero => omega
      | succ j => simp
    rw [this]; exact hy _

theorem noOcc_cons_unmatchable (w : List CharSet) (hne : w ≠ []) (c : Char) (y : List Char) (hu : Unmatchable w c)
    (hy : NoOcc w y) : NoOcc w (c :: y) := by
  have := noOcc_join w hne [] y c hu (noOcc_nil w hne) hy
  simpa using this

theorem noOcc_prefix_spaces (w : List CharSet) (hne : w ≠ []) (l y : List Char) (hl : ∀ c ∈ l, Unmatchable w c)
    (hy : NoOcc w y) : NoOcc w (l ++ y) := by
  induction l with
  | nil => simpa using hy
  | cons c l ih =>
    exact noOcc_cons_unmatchable w hne c (l ++ y) (hl c (by simp)) (ih (fun d hd => hl d (by simp [hd])))

theorem noOcc_suffix_spaces (w : List CharSet) (hne : w ≠ []) (x t : List Char) (ht : ∀ c ∈ t, Unmatchable w c)
    (hx : NoOcc w x) : NoOcc w (x ++ t) := by
  cases t with
  | nil => simpa using hx
  | cons c t =>
    apply noOcc_join w hne x t c (ht c (by simp)) hx
    have := noOcc_prefix_spaces w hne t [] (fun d hd => ht d (by simp [hd])) (noOcc_nil w hne)
    simpa using this

theorem noOcc_joinSp (w : List CharSet) (hne : w ≠ []) (hsp : Unmatchable w ' ') :
    ∀ toks : List (List Char), (∀ t ∈ toks, NoOcc w t) → NoOcc w (joinSp toks) := by
  intro toks
  induction toks with
  | nil => intro _; exact noOcc_nil w hne
  | cons t toks ih =>
    intro h
    cases toks with
    | nil => simpa [joinSp] using h t (by simp)
    | cons t2 toks =>
      have e : joinSp (t :: t2 :: toks) = t ++ ' ' :: joinSp (t2 :: toks) := by simp [joinSp]
      rw [e]
      exact noOcc_join w hne t _ ' ' hsp (h t (by simp)) (ih (fun x hx => h x (by simp [hx])))

/-- computable check: no range of the word's character sets meets a range of the white-space set -/
def spaceFree (spaceSet : CharSet) (w : List CharSet) : Bool :=
  w.all (fun a => a.all (fun r => spaceSet.all (fun s => decide (r.2 < s.1) || decide (s.2 < r.1))))

theorem unmatchable_of_spaceFree (spaceSet : CharSet) (w : List CharSet) (h : spaceFree spaceSet w = true) :
    ∀ c, inRanges spaceSet c = true → Unmatchable w c := by
  intro c hc a ha
  cases hin : inRanges a c with
  | false => rfl
  | true =>
    exfalso
    unfold spaceFree at h
    have h1 := List.all_eq_true.mp h a ha
    unfold inRanges at hin hc
    obtain ⟨r, hr, hr2⟩ := List.any_eq_true.mp hin
    obtain ⟨s, hs, hs2⟩ := List.any_eq_true.mp hc
    have h2 := List.all_eq_true.mp (List.all_eq_true.mp h1 r hr) s hs
    simp only [Bool.and_eq_true, decide_eq_true_eq, Bool.or_eq_true] at hr2 hs2 h2
    omega

/-! the pieces of `splitLine` -/

theorem mem_takeWhile_p {α} (p : α → Bool) : ∀ (l : List α) (c : α), c ∈ l.takeWhile p → p c = true := by
  intro l
  induction l with
  | nil => intro c h; simp at h
  | cons a l ih =>
    intro c h
    simp only [List.takeWhile_cons] at h
    split at h
    · simp only [List.mem_cons] at h
      rcases h with rfl | h
      · assumption
      · exact ih c h
    · simp at h
theorem tw_len {α} (p : α → Bool) (l : List α) : (l.takeWhile p).length + (l.dropWhile p).length = l.length := by
  have := congrArg List.length (List.takeWhile_append_dropWhile (p := p) (l := l))
  rw [List.length_append] at this; exact this
theorem take_tw {α} (p : α → Bool) (l : List α) : l.take (l.takeWhile p).length = l.takeWhile p := by
  have h := List.takeWhile_append_dropWhile (p := p) (l := l)
  have h2 : (l.takeWhile p ++ l.dropWhile p).take (l.takeWhile p).length = l.takeWhile p := List.take_left' rfl
  rw [h] at h2; exact h2
theorem drop_rev {α} (p : α → Bool) (l : List α) :
    l.drop ((l.reverse.dropWhile p).reverse).length = (l.reverse.takeWhile p).reverse := by
  have h := List.takeWhile_append_dropWhile (p := p) (l := l.reverse)
  have h1 := congrArg List.reverse h
  rw [List.reverse_append, List.reverse_reverse] at h1
  have h2 : ((l.reverse.dropWhile p).reverse ++ (l.reverse.takeWhile p).reverse).drop ((l.reverse.dropWhile p).reverse).length
      = (l.reverse.takeWhile p).reverse := List.drop_left' rfl
  rw [h1] at h2; exact h2

theorem leading_spaces (sp : Char → Bool) (line : List Char) : ∀ c ∈ (splitLine sp line).1, sp c = true := by
  intro c hc
  simp only [splitLine] at hc
  split at hc
  · simp at hc
  · have hlen : line.length - (line.dropWhile sp).length = (line.takeWhile sp).length := by
      have := tw_len sp line; omega
    rw [hlen, take_tw] at hc
    exact mem_takeWhile_p sp line c hc

theorem trailing_spaces (sp : Char → Bool) (line : List Char) : ∀ c ∈ (splitLine sp line).2.2, sp c = true := by
  intro c hc
  simp only [splitLine] at hc
  rw [drop_rev] at hc
  exact mem_takeWhile_p sp _ c (List.mem_reverse.mp hc)

end NoSurvival
end Netconan
