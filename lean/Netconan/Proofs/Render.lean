import Netconan.Proofs.Type7
import Netconan.Proofs.Secrets
/-! Format compliance of the passlib-free re-encodings: alphabets, lengths, injectivity. -/
namespace Netconan
namespace Secrets

def isUpperHex (c : Char) : Bool := ('0' ≤ c && c ≤ '9') || ('A' ≤ c && c ≤ 'F')
def isLowerHex (c : Char) : Bool := ('0' ≤ c && c ≤ '9') || ('a' ≤ c && c ≤ 'f')
def isDigit (c : Char) : Bool := '0' ≤ c && c ≤ '9'

theorem hexDigitU_ok : ∀ n, n < 16 → isUpperHex (hexDigitU n) = true := by decide +kernel
theorem hexDigitL_ok : ∀ n, n < 16 → isLowerHex (hexDigitL n) = true := by decide +kernel
theorem digit_ok : ∀ n, n < 10 → isDigit (Char.ofNat (48 + n)) = true := by decide +kernel

theorem type7EncodeBody_hex (salt : Nat) (txt : List Char) : ∀ i, ∀ c ∈ type7EncodeBody salt i txt, isUpperHex c = true := by
  induction txt with
  | nil => intro i c hc; simp [type7EncodeBody] at hc
  | cons d ds ih =>
    intro i c hc
    simp only [type7EncodeBody, List.mem_cons] at hc
    rcases hc with rfl | rfl | hc
    · exact hexDigitU_ok _ (Nat.mod_lt _ (by decide))
    · exact hexDigitU_ok _ (Nat.mod_lt _ (by decide))
    · exact ih _ c hc

theorem type7EncodeBody_length (salt : Nat) (txt : List Char) : ∀ i, (type7EncodeBody salt i txt).length = 2 * txt.length := by
  induction txt with
  | nil => intro i; rfl
  | cons d ds ih => intro i; simp only [type7EncodeBody, List.length_cons, ih]; omega

theorem type7_eq (txt : List Char) : type7 9 txt = ['0', '9'] ++ type7EncodeBody 9 0 txt := by
  unfold type7
  have := zipIdx_encode 9 txt 0
  simp only at this
  rw [this]

/-- **type 7**: two salt digits followed by two upper-case hex digits per character -/
theorem type7_format (txt : List Char) :
    (type7 9 txt).length = 2 + 2 * txt.length ∧ ∀ c ∈ type7 9 txt, isUpperHex c = true := by
  rw [type7_eq]
  refine ⟨by simp [type7EncodeBody_length]; omega, ?_⟩
  intro c hc
  simp only [List.mem_append, List.mem_cons, List.not_mem_nil, or_false] at hc
  rcases hc with (rfl | rfl) | hc
  · decide
  · decide
  · exact type7EncodeBody_hex 9 txt 0 c hc

/-- type 7 is injective on ASCII texts (distinct pseudonyms give distinct replacements) -/
theorem type7_injective (a b : List Char) (ha : ∀ c ∈ a, c.toNat < 128) (hb : ∀ c ∈ b, c.toNat < 128)
    (h : type7 9 a = type7 9 b) : a = b := by
  rw [← type7_roundtrip a ha, ← type7_roundtrip b hb, h]

/-- **hex**: lower-case hex digits only -/
theorem hexOf_format (txt : List Char) : ∀ c ∈ hexOf txt, isLowerHex c = true := by
  induction txt with
  | nil => intro c hc; simp [hexOf] at hc
  | cons d ds ih =>
    intro c hc
    simp only [hexOf, List.map_cons, List.flatten_cons, List.mem_append, List.mem_cons, List.not_mem_nil, or_false] at hc
    rcases hc with (rfl | rfl) | hc
    · exact hexDigitL_ok _ (Nat.mod_lt _ (by decide))
    · exact hexDigitL_ok _ (Nat.mod_lt _ (by decide))
    · exact ih c hc

theorem hexPairL : ∀ v, v < 256 → hexValL (hexDigitL (v / 16 % 16)) * 16 + hexValL (hexDigitL (v % 16)) = v := by decide +kernel

theorem unhex_hexOf (txt : List Char) (h : ∀ c ∈ txt, c.toNat < 256) : unhex (hexOf txt) = txt := by
  induction txt with
  | nil => rfl
  | cons d ds ih =>
    have hd : d.toNat < 256 := h d (by simp)
    have := ih (fun c hc => h c (by simp [hc]))
    simp only [hexOf, List.map_cons, List.flatten_cons, List.cons_append, List.nil_append, unhex] at this ⊢
    rw [hexPairL _ hd, this]
    simp

/-- hex is injective (it is `binascii.unhexlify`'s inverse) -/
theorem hexOf_injective (a b : List Char) (ha : ∀ c ∈ a, c.toNat < 256) (hb : ∀ c ∈ b, c.toNat < 256)
    (h : hexOf a = hexOf b) : a = b := by
  rw [← unhex_hexOf a ha, ← unhex_hexOf b hb, h]

/-- **numeric**: decimal digits only, at least one -/
theorem decDigitsAux_digits (f n : Nat) (acc : List Char) (hacc : ∀ c ∈ acc, isDigit c = true) :
    ∀ c ∈ decDigitsAux f n acc, isDigit c = true := by
  induction f generalizing n acc with
  | zero => simpa [decDigitsAux] using hacc
  | succ f ih =>
    simp only [decDigitsAux]
    have hd := digit_ok (n % 10) (Nat.mod_lt _ (by decide))
    split
    · intro c hc
      simp only [List.mem_cons] at hc
      rcases hc with rfl | hc
      · exact hd
      · exact hacc c hc
    · apply ih
      intro c hc
      simp only [List.mem_cons] at hc
      rcases hc with rfl | hc
      · exact hd
      · exact hacc c hc

theorem decDigitsAux_ne_nil (f n : Nat) (acc : List Char) : decDigitsAux (f + 1) n acc ≠ [] := by
  induction f generalizing n acc with
  | zero => simp only [decDigitsAux]; split <;> simp
  | succ f ih =>
    rw [decDigitsAux]
    split
    · simp
    · exact ih _ _

theorem numericOf_format (txt : List Char) : numericOf txt ≠ [] ∧ ∀ c ∈ numericOf txt, isDigit c = true :=
  ⟨decDigitsAux_ne_nil _ _ _, decDigitsAux_digits _ _ [] (by simp)⟩

end Secrets
end Netconan
