import Netconan.Proofs.NoSurvival
/-!
# The word pattern: what the engine does with an alternation of literals

* `lit_complete` / `lit_sound`: a literal (sequence of character sets) succeeds exactly by advancing
  over as many characters as it has, each in its set;
* `alt_complete`: if some listed word matches at the current position, the ordered alternation does
  not answer "no match"; `alt_sound`: a success of the alternation consumed at least one character;
* `subLoop_good`: hence the substitution loop yields a `Good` segmentation (leftmost scanning: at a
  kept character the pattern answered "no match", so no listed word matches there).
-/
namespace Netconan
namespace NoSurvival
open Regex

def litSets (w : List CharSet) : Re := w.foldr (fun a acc => .seq (.chr a) acc) .eps

theorem literalRe_eq (e : WEnv) (w : List Char) : Words.literalRe e w = litSets (w.map e.icase) := by
  unfold Words.literalRe litSets
  induction w with
  | nil => rfl
  | cons c w ih => simp only [List.foldr_cons, List.map_cons, ih]

theorem lit_complete : ∀ (w : List CharSet) (fuel : Nat) (k : K) (z : Z) (cs : Caps), pre w z.right = true →
    m fuel (litSets w) k z cs = .oof ∨
      ∃ z', z'.left.length = z.left.length + w.length ∧ m fuel (litSets w) k z cs = k z' cs := by
  intro w
  induction w with
  | nil =>
    intro fuel k z cs _
    cases fuel with
    | zero => left; rfl
    | succ f => right; exact ⟨z, by simp, rfl⟩
  | cons a w ih =>
    intro fuel k z cs hp
    cases hz : z.right with
    | nil => rw [hz] at hp; simp [pre] at hp
    | cons c rest =>
      rw [hz] at hp
      simp only [pre, Bool.and_eq_true] at hp
      cases fuel with
      | zero => left; rfl
      | succ f =>
        cases f with
        | zero => left; rfl
        | succ f' =>
          have hstep : m (f' + 1 + 1) (litSets (a :: w)) k z cs = m (f' + 1) (litSets w) k ⟨c :: z.left, rest⟩ cs := by
            show m (f' + 1) (.chr a) (m (f' + 1) (litSets w) k) z cs = _
            simp only [m, hz, hp.1, if_true]
          rw [hstep]
          rcases ih (f' + 1) k ⟨c :: z.left, rest⟩ cs hp.2 with h | ⟨z', hl, he⟩
          · left; exact h
          · right; exact ⟨z', by simp at hl; simp; omega, he⟩

theorem lit_sound : ∀ (w : List CharSet) (fuel : Nat) (k : K) (z : Z) (cs : Caps) (res : Z × Caps),
    m fuel (litSets w) k z cs = .ok res →
      ∃ z', z'.left.length = z.left.length + w.length ∧ k z' cs = .ok res := by
  intro w
  induction w with
  | nil =>
    intro fuel k z cs res h
    cases fuel with
    | zero => simp [m] at h
    | succ f => exact ⟨z, by simp, h⟩
  | cons a w ih =>
    intro fuel k z cs res h
    cases fuel with
    | zero => simp [m] at h
    | succ f =>
      cases f with
      | zero =>
        have : m (0 + 1) (litSets (a :: w)) k z cs = m 0 (.chr a) (m 0 (litSets w) k) z cs := rfl
        rw [this] at h; simp [m] at h
      | succ f' =>
        have hstep : m (f' + 1 + 1) (litSets (a :: w)) k z cs = m (f' + 1) (.chr a) (m (f' + 1) (litSets w) k) z cs := rfl
        rw [hstep] at h
        simp only [m] at h
        cases hz : z.right with
        | nil => simp [hz] at h
        | cons c rest =>
          simp only [hz] at h
          by_cases hin : inRanges a c = true
          · simp only [hin, if_true] at h
            obtain ⟨z', hl, hk⟩ := ih (f' + 1) k ⟨c :: z.left, rest⟩ cs res h
            exact ⟨z', by simp at hl; simp; omega, hk⟩
          · simp [hin] at h

theorem alt_complete : ∀ (W : List (List CharSet)) (fuel : Nat) (k : K) (z : Z) (cs : Caps),
    (∃ w ∈ W, pre w z.right = true) → (∀ z' cs', k z' cs' ≠ .none) →
    m fuel (Words.altOf (W.map litSets)) k z cs ≠ .none := by
  intro W
  induction W with
  | nil => intro _ _ _ _ ⟨w, hw, _⟩; simp at hw
  | cons w W ih =>
    intro fuel k z cs hex hk
    cases W with
    | nil =>
      obtain ⟨w', hw', hp⟩ := hex
      simp at hw'; subst hw'
      simp only [List.map_cons, List.map_nil, Words.altOf]
      rcases lit_complete w' fuel k z cs hp with h | ⟨z', _, he⟩
      · rw [h]; simp
      · rw [he]; exact hk z' cs
    | cons w2 W =>
      cases fuel with
      | zero => simp [m]
      | succ f =>
        have hstep : m (f + 1) (Words.altOf ((w :: w2 :: W).map litSets)) k z cs
            = (m f (litSets w) k z cs).orElse fun _ => m f (Words.altOf ((w2 :: W).map litSets)) k z cs := rfl
        rw [hstep]
        cases h1 : m f (litSets w) k z cs with
        | ok r => simp [Res.orElse]
        | oof => simp [Res.orElse]
        | none =>
          simp only [Res.orElse]
          obtain ⟨w', hw', hp⟩ := hex
          simp only [List.mem_cons] at hw'
          rcases hw' with rfl | hw'
          · rcases lit_complete w' f k z cs hp with h | ⟨z', _, he⟩
            · rw [h] at h1; simp at h1
            · rw [he] at h1; exact absurd h1 (hk z' cs)
          · exact ih f k z cs ⟨w', by simpa using hw', hp⟩ hk

theorem alt_sound : ∀ (W : List (List CharSet)) (fuel : Nat) (k : K) (z : Z) (cs : Caps) (res : Z × Caps),
    W ≠ [] → (∀ w ∈ W, w ≠ []) → m fuel (Words.altOf (W.map litSets)) k z cs = .ok res →
    ∃ z', z.left.length < z'.left.length ∧ k z' cs = .ok res := by
  intro W
  induction W with
  | nil => intro _ _ _ _ _ h; exact absurd rfl h
  | cons w W ih =>
    intro fuel k z cs res _ hne h
    have hwne : w ≠ [] := hne w (by simp)
    have hwl : 0 < w.length := List.length_pos_iff.mpr hwne
    cases W with
    | nil =>
      simp only [List.map_cons, List.map_nil, Words.altOf] at h
      obtain ⟨z', hl, hk⟩ := lit_sound w fuel k z cs res h
      exact ⟨z', by omega, hk⟩
    | cons w2 W =>
      cases fuel with
      | zero => simp [m] at h
      | succ f =>
        have hstep : m (f + 1) (Words.altOf ((w :: w2 :: W).map litSets)) k z cs
            = (m f (litSets w) k z cs).orElse fun _ => m f (Words.altOf ((w2 :: W).map litSets)) k z cs := rfl
        rw [hstep] at h
        rcases orElse_ok h with h1 | ⟨_, h2⟩
        · obtain ⟨z', hl, hk⟩ := lit_sound w f k z cs res h1
          exact ⟨z', by omega, hk⟩
        · exact ih f k z cs res (by simp) (fun x hx => hne x (by simp [hx])) h2

/-- the word pattern of `SensitiveWordAnonymizer`: `(w1|w2|...)` -/
def wordRe (W : List (List CharSet)) : Re := .grp 1 (Words.altOf (W.map litSets))

/-- **leftmost scanning is complete**: "no match here" means no listed word matches here -/
theorem matchAt_none (W : List (List CharSet)) (fuel : Nat) (z : Z) (h : matchAt (wordRe W) fuel z = .none) :
    ∀ w ∈ W, pre w z.right = false := by
  intro w hw
  cases hp : pre w z.right with
  | false => rfl
  | true =>
    exfalso
    unfold matchAt wordRe at h
    cases fuel with
    | zero => simp [m] at h
    | succ f =>
      simp only [m] at h
      exact alt_complete W f _ z [] ⟨w, hw, hp⟩ (by intro z' cs'; simp) h

/-- a match of the word pattern is never empty -/
theorem matchAt_nonempty (W : List (List CharSet)) (hW : W ≠ []) (hne : ∀ w ∈ W, w ≠ []) (fuel : Nat) (z z' : Z) (cs : Caps)
    (h : matchAt (wordRe W) fuel z = .ok (z', cs)) : z.left.length < z'.left.length := by
  unfold matchAt wordRe at h
  cases fuel with
  | zero => simp [m] at h
  | succ f =>
    simp only [m] at h
    obtain ⟨z1, hl, hk⟩ := alt_sound W f _ z [] (z', cs) hW hne h
    simp at hk
    rw [← hk.1]; exact hl

/-- **the substitution loop yields a `Good` segmentation** (for a replacement function that always
gives `N` hex digits) -/
theorem subLoop_good (W : List (List CharSet)) (hW : W ≠ []) (hne : ∀ w ∈ W, w ≠ []) (N : Nat) (fuel : Nat)
    (f : Match → List Char) (hf : ∀ mt, (f mt).length = N ∧ (f mt).all isHex = true) (n : Nat) :
    ∀ (z : Z) (acc out : List Char), subLoop (wordRe W) fuel f n z acc = .ok out →
      ∃ segs : List Seg, z.right = srcs segs ∧ out = acc ++ dsts segs ∧ Good W N segs := by
  induction n with
  | zero => intro z acc out h; simp [subLoop] at h
  | succ n ih =>
    intro z acc out h
    simp only [subLoop] at h
    cases hm : matchAt (wordRe W) fuel z with
    | oof => simp [hm] at h
    | ok p =>
      obtain ⟨z', cs⟩ := p
      simp only [hm] at h
      have hlt := matchAt_nonempty W hW hne fuel z z' cs hm
      have hadv := matchAt_adv _ fuel z z' cs hm
      have hspan := span_of_adv hadv
      have hnonempty : ((z'.left.take (z'.left.length - z.left.length)).reverse).isEmpty = false := by
        cases hx : (z'.left.take (z'.left.length - z.left.length)).reverse with
        | nil =>
          have : ((z'.left.take (z'.left.length - z.left.length)).reverse).length = 0 := by rw [hx]; rfl
          simp at this; omega
        | cons _ _ => rfl
      simp only [hnonempty] at h
      obtain ⟨segs, h1, h2, h3⟩ := ih _ _ _ h
      refine ⟨.rep ((z'.left.take (z'.left.length - z.left.length)).reverse)
          (f ⟨z.left.length, (z'.left.take (z'.left.length - z.left.length)).reverse, cs⟩) :: segs, ?_, ?_, ?_⟩
      · rw [hspan]; simp [srcs, Seg.src, ← h1]
      · rw [h2]; simp [dsts, Seg.dst]
      · exact ⟨hf _, h3⟩
    | none =>
      simp only [hm] at h
      have hnone := matchAt_none W fuel z hm
      cases hr : z.right with
      | nil =>
        simp only [hr] at h
        simp at h
        exact ⟨[], by simp [srcs], by simp [dsts, h], trivial⟩
      | cons c rest =>
        simp only [hr] at h
        obtain ⟨segs, h1, h2, h3⟩ := ih _ _ _ h
        refine ⟨.keep c :: segs, by simp [srcs, Seg.src, ← h1], by rw [h2]; simp [dsts, Seg.dst], ?_⟩
        refine ⟨?_, h3⟩
        intro w hw
        have := hnone w hw
        rw [hr] at this
        simpa [← h1] using this

/-- **No listed word survives `pattern.sub`**: for every token, if the substitution ends (`ok`) then
no listed word that satisfies `WordOK` matches the output at any offset. -/
theorem sub_no_survivor (W : List (List CharSet)) (hW : W ≠ []) (hne : ∀ w ∈ W, w ≠ []) (N : Nat)
    (f : Match → List Char) (hf : ∀ mt, (f mt).length = N ∧ (f mt).all isHex = true)
    (s out : List Char) (h : sub (wordRe W) f s = .ok out) :
    ∀ w ∈ W, WordOK N w → ∀ k, pre w (out.drop k) = false := by
  obtain ⟨segs, _, h2, h3⟩ := subLoop_good W hW hne N _ f hf _ ⟨[], s⟩ [] out h
  intro w hw hok k
  rw [h2]
  simpa using good_no_occurrence W N segs h3 w hw hok k

end NoSurvival
end Netconan
