import Netconan.Proofs.AsPattern
/-!
# `anonymize_as_numbers` is the digit-run scanner

`Scan`: a segmentation of the line, read left to right with the text already passed, in which a span
is replaced exactly where a listed number stands alone (previous character a non-digit or none, next
character a non-digit, the end, or the final newline), and a character is kept exactly where no listed
number stands alone.  `subLoop_scan`: the substitution loop on the AS pattern produces it.
-/
namespace Netconan
namespace NoSurvival
open Regex

theorem pre_length : ∀ (w : List CharSet) (s : List Char), pre w s = true → w.length ≤ s.length := by
  intro w
  induction w with
  | nil => intro s _; simp
  | cons a w ih =>
    intro s h
    cases s with
    | nil => simp [pre] at h
    | cons c s =>
      simp only [pre, Bool.and_eq_true] at h
      have := ih s h.2
      simp; omega

def Scan (nd : CharSet) (W : List (List CharSet)) (F : List Char → List Char) : List Char → List Seg → Prop
  | _, [] => True
  | left, .keep c :: segs => ¬ StartsHere nd W left (c :: srcs segs) ∧ Scan nd W F (c :: left) segs
  | left, .rep t rp :: segs =>
    (t ≠ [] ∧ prevOK nd left = true ∧ (∃ w ∈ W, pre w (t ++ srcs segs) = true ∧ t.length = w.length) ∧
      nextOK nd (srcs segs) = true ∧ rp = F t) ∧ Scan nd W F (t.reverse ++ left) segs

theorem subLoop_scan (nd : CharSet) (W : List (List CharSet)) (hW : W ≠ []) (hne : ∀ w ∈ W, w ≠ []) (fuel : Nat)
    (f : Match → List Char) (F : List Char → List Char) (hf : ∀ mt, f mt = F mt.text) (n : Nat) :
    ∀ (z : Z) (acc out : List Char), subLoop (asRe nd W) fuel f n z acc = .ok out →
      ∃ segs : List Seg, z.right = srcs segs ∧ out = acc ++ dsts segs ∧ Scan nd W F z.left segs := by
  induction n with
  | zero => intro z acc out h; simp [subLoop] at h
  | succ n ih =>
    intro z acc out h
    simp only [subLoop] at h
    rcases matchAt_as_ref nd W fuel z with hoof | hspec
    · simp [hoof] at h
    · cases hm : matchAt (asRe nd W) fuel z with
      | oof => simp [hm] at h
      | ok p =>
        obtain ⟨z', cs⟩ := p
        simp only [hm] at h
        rw [hm] at hspec
        obtain ⟨hp, w, hw, hpre, hn, hz'⟩ := asSpec_ok nd W hW z z' cs hspec.symm
        have hwl : 0 < w.length := List.length_pos_iff.mpr (hne w hw)
        have hlen := pre_length w z.right hpre
        have hspan : (z'.left.take (z'.left.length - z.left.length)).reverse = z.right.take w.length := by
          rw [hz']; simp [skip]
        have htl : (z.right.take w.length).length = w.length := by
          rw [List.length_take]; omega
        have hnonempty : ((z'.left.take (z'.left.length - z.left.length)).reverse).isEmpty = false := by
          rw [hspan]
          cases hx : z.right.take w.length with
          | nil => rw [hx] at htl; simp at htl; omega
          | cons _ _ => rfl
        simp only [hnonempty] at h
        obtain ⟨segs, h1, h2, h3⟩ := ih _ _ _ h
        have hz'r : z'.right = z.right.drop w.length := by rw [hz']; rfl
        have hz'l : z'.left = (z.right.take w.length).reverse ++ z.left := by rw [hz']; rfl
        refine ⟨.rep (z.right.take w.length) (f ⟨z.left.length, z.right.take w.length, cs⟩) :: segs, ?_, ?_, ?_⟩
        · simp only [srcs, Seg.src, ← h1, hz'r, List.take_append_drop]
        · rw [h2, hspan]; simp [dsts, Seg.dst]
        · refine ⟨⟨?_, hp, ⟨w, hw, ?_, ?_⟩, ?_, ?_⟩, ?_⟩
          · intro hx
            rw [hx] at htl; simp at htl; omega
          · rw [← h1, hz'r, List.take_append_drop]; exact hpre
          · exact htl
          · rw [← h1, hz'r]; exact hn
          · rw [hf]
          · rw [← hz'l]; exact h3
      | none =>
        simp only [hm] at h
        rw [hm] at hspec
        have hns := asSpec_none nd W z hspec.symm
        cases hr : z.right with
        | nil =>
          simp only [hr] at h
          simp at h
          exact ⟨[], by simp [srcs], by simp [dsts, h], trivial⟩
        | cons c rest =>
          simp only [hr] at h
          obtain ⟨segs, h1, h2, h3⟩ := ih _ _ _ h
          refine ⟨.keep c :: segs, by simp [srcs, Seg.src, ← h1], by rw [h2]; simp [dsts, Seg.dst], ?_, h3⟩
          rw [hr] at hns
          simpa [← h1] using hns

end NoSurvival
end Netconan
